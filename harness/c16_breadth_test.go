//go:build verif

package harness

// C16 workload, breadth: a nondeterminism can only show where code runs. This part of the workload makes the replay
// deliver EVERY message type of the DeFi modules at least once (the distribution `msg-ok:<type url>` / `msg-fail:…` is in
// the stats file, `never-delivered` / `never-succeeded` list what is missing) and reach the begin / end blocker units
// the first part does not: oracle feed outages (market BeginBlocker deactivating every price), the circuit breaker
// (kill switch), emergency shutdown of an app (ESM deposit → execute → price snapshot → cool-off → redemption set-up
// in the esm BeginBlocker → MsgCollateralRedemption), stable-mint vaults with their external reward programme
// (CombinePSMUserPositions / DistributeExtRewardStableVault), the external lend reward programme with a priced reward
// asset and borrowers farming in the master pool (DistributeExtRewardLend), limit-bid withdrawal / cancellation,
// keeper-initiated liquidations of both generations, application reserve funds, single-order cancellation,
// unfarm-and-withdraw.

import (
	"sort"
	"strings"

	sdk "github.com/cosmos/cosmos-sdk/types"

	chain "github.com/comdex-official/comdex/app"
	"github.com/comdex-official/comdex/app/wasm/bindings"
	assettypes "github.com/comdex-official/comdex/x/asset/types"
	auctiontypes "github.com/comdex-official/comdex/x/auction/types"
	aucv2types "github.com/comdex-official/comdex/x/auctionsV2/types"
	collectortypes "github.com/comdex-official/comdex/x/collector/types"
	esmtypes "github.com/comdex-official/comdex/x/esm/types"
	lendtypes "github.com/comdex-official/comdex/x/lend/types"
	liqv1types "github.com/comdex-official/comdex/x/liquidation/types"
	liqv2types "github.com/comdex-official/comdex/x/liquidationsV2/types"
	liquiditytypes "github.com/comdex-official/comdex/x/liquidity/types"
	lockertypes "github.com/comdex-official/comdex/x/locker/types"
	rewardstypes "github.com/comdex-official/comdex/x/rewards/types"
	vaulttypes "github.com/comdex-official/comdex/x/vault/types"
)

const c16StablePair = 2 // extended pair id of the stable-mint product (ATOM -> CMST), created in breadthFixture

type c16LimitBid struct {
	who     int
	premium int64
}

// breadthFixture (block 2, after the lend fixture): configuration the extra units need
func (w *c16Workload) breadthFixture() {
	in := w.in
	ak := in.app.AssetKeeper
	// the reward asset has a price (external lend / stable-mint rewards are valued in it)
	w.setPrice(w.assetID["uharbor"], 500_000)
	// stable-mint product of app harbor: ATOM(4) -> CMST(2)
	w.must(ak.AddPairsRecords(in.ctx, assettypes.Pair{AssetIn: w.assetID["uatom"], AssetOut: w.assetID["ucmst"]}), "pair atom->cmst")
	w.must(ak.WasmAddExtendedPairsVaultRecords(in.ctx, &bindings.MsgAddExtendedPairsVault{
		AppID: c16AppHarbor, PairID: 2, StabilityFee: c16D("0"), ClosingFee: c16D("0"), LiquidationPenalty: c16D("0.12"), DrawDownFee: c16D("0.001"),
		IsVaultActive: true, DebtCeiling: sdk.NewInt(1_000_000_000_000), DebtFloor: sdk.NewInt(1000), IsStableMintVault: true,
		MinCr: c16D("1"), PairName: "ATOM-S", AssetOutOraclePrice: true, AssetOutPrice: 1_000_000, MinUsdValueLeft: 1_000_000,
	}), "stable-mint ext pair")
	// emergency shutdown of app harbor: target 5 HARBOR, one hour of cool-off; admin of the circuit breaker
	in.app.EsmKeeper.SetESMTriggerParams(in.ctx, esmtypes.ESMTriggerParams{AppId: c16AppHarbor, TargetValue: sdk.NewCoin("uharbor", sdk.NewInt(5_000_000)), CoolOffPeriod: 3600,
		AssetsRates: []esmtypes.DebtAssetsRates{{AssetID: w.assetID["ucmst"], Rates: 1_000_000}}})
	in.app.EsmKeeper.SetParams(in.ctx, esmtypes.Params{Admin: []string{w.addr(0).String()}})
	in.tx(0, "rewards.ext-stable-mint", &rewardstypes.ActivateExternalRewardsStableMint{AppId: c16AppHarbor, CswapAppId: c16AppSwap, CommodoAppId: c16AppLend,
		// DurationDays 400: x/rewards/keeper/iter.go:482 counts an epoch per BLOCK (epoch.Count++ outside every condition) and pays only in
		// blocks more than a day after the previous one; with a small number the programme is over before the first day gap
		TotalRewards: sdk.NewCoin("uharbor", sdk.NewInt(40_000_000)), DurationDays: 400, Depositor: w.addr(0).String(), AcceptedBlockHeight: 1})
	in.tx(0, "liquidationsV2.app-reserve-funds", &liqv2types.MsgAppReserveFundsRequest{AppId: c16AppHarbor, AssetId: w.assetID["ucmst"],
		TokenQuantity: sdk.NewCoin("ucmst", sdk.NewInt(50_000_000)), From: w.addr(0).String()})
	in.tx(0, "lend.fund-reserve", &lendtypes.MsgFundReserveAccounts{AssetId: w.assetID["ucmst"], Lender: w.addr(0).String(), Amount: sdk.NewCoin("ucmst", sdk.NewInt(30_000_000))})
	in.tx(0, "collector.deposit", &collectortypes.MsgDeposit{Addr: w.addr(0).String(), Amount: sdk.NewCoin("uharbor", sdk.NewInt(3_000_000)), AppId: c16AppHarbor})
	// registered as a Msg type but not part of the locker Msg service (governance / wasm binding only): delivered once, rejected by the router
	in.tx(0, "locker.add-whitelisted-asset", lockertypes.NewMsgAddWhiteListedAssetRequest(w.addr(0).String(), c16AppHarbor, w.assetID["uharbor"]))
	in.tx(0, "asset.add-asset", &assettypes.MsgAddAsset{Creator: w.addr(0).String(), Asset: assettypes.Asset{Name: "JUNO", Denom: "ujuno", Decimals: sdk.NewInt(1000000), IsOnChain: true}})
}

// allPricedDenoms: every asset the workload keeps a price for
func (w *c16Workload) repriceAll() {
	ids := make([]uint64, 0, len(w.price))
	for id := range w.price {
		ids = append(ids, id)
	}
	sort.Slice(ids, func(i, j int) bool { return ids[i] < ids[j] })
	for _, id := range ids {
		w.setPrice(id, w.price[id])
	}
}

func (w *c16Workload) userIndex(addr string) int {
	for i := range w.in.addrs {
		if w.in.addrs[i].String() == addr {
			return i
		}
	}
	return -1
}

func (w *c16Workload) breadthStep(b int) {
	in := w.in
	lk := in.app.LiquidityKeeper
	// --- oracle feed outage: the band feed is reported unhealthy for two blocks; the market BeginBlocker of the following
	// blocks deactivates every price (value-moving messages fail, liquidations and reward valuations skip); then the feed
	// comes back and the prices are written again
	switch b % 13 {
	case 7:
		in.app.BandoracleKeeper.SetOracleValidationResult(in.ctx, false)
		in.stats["oracle:outage-begin"]++
	case 9:
		in.app.BandoracleKeeper.SetOracleValidationResult(in.ctx, true)
		w.repriceAll()
		in.stats["oracle:outage-end"]++
	}
	// --- circuit breaker on the lend app for two blocks
	if b == 16 || b == 18 {
		in.tx(0, "esm.kill-switch", &esmtypes.MsgKillRequest{From: w.addr(0).String(), KillSwitchParams: &esmtypes.KillSwitchParams{AppId: c16AppLend, BreakerEnable: b == 16}})
	}
	// --- liquidity: cancel one open order of its owner; unfarm-and-withdraw
	if w.rng.Chance(35) {
		orders := lk.GetAllOrders(in.ctx, c16AppSwap)
		if len(orders) > 0 {
			o := orders[w.rng.Intn(len(orders))]
			if who := w.userIndex(o.Orderer); who >= 0 {
				in.tx(who, "liquidity.cancel-order", liquiditytypes.NewMsgCancelOrder(c16AppSwap, w.addr(who), o.PairId, o.Id))
			}
		}
	}
	if w.rng.Chance(25) {
		p := w.pairs[w.rng.Intn(len(w.pairs))]
		poolID := p.pools[w.rng.Intn(len(p.pools))]
		if pool, ok := lk.GetPool(in.ctx, c16AppSwap, poolID); ok {
			for _, f := range lk.GetAllActiveFarmers(in.ctx, c16AppSwap, poolID) {
				if who := w.userIndex(f.Farmer); who >= 0 && f.FarmedPoolCoin.Amount.GT(sdk.NewInt(10)) {
					in.tx(who, "liquidity.unfarm-and-withdraw", liquiditytypes.NewMsgUnfarmAndWithdraw(c16AppSwap, poolID, w.addr(who),
						sdk.NewCoin(pool.PoolCoinDenom, f.FarmedPoolCoin.Amount.QuoRaw(3).AddRaw(1))))
					break
				}
			}
		}
	}
	// the twin borrowers farm in the master pool of the external lend reward programme (pool 2: basic CMDX/CMST)
	if b == 4 {
		for _, who := range []int{5, 6} {
			in.tx(who, "liquidity.deposit-and-farm", liquiditytypes.NewMsgDepositAndFarm(c16AppSwap, w.addr(who), 2,
				sdk.NewCoins(sdk.NewCoin("ucmdx", sdk.NewInt(20_000_000)), sdk.NewCoin("ucmst", sdk.NewInt(40_000_000)))))
		}
	}
	// --- stable-mint vaults
	{
		who := w.user()
		from := w.addr(who).String()
		var mine *vaulttypes.StableMintVault
		for _, sv := range in.app.VaultKeeper.GetStableMintVaults(in.ctx) {
			sv := sv
			if sv.AppId == c16AppHarbor && sv.ExtendedPairVaultID == c16StablePair {
				mine = &sv
			}
		}
		switch {
		case mine == nil || b == 5:
			in.tx(who, "vault.create-stable-mint", &vaulttypes.MsgCreateStableMintRequest{From: from, AppId: c16AppHarbor, ExtendedPairVaultId: c16StablePair, Amount: sdk.NewInt(int64(5_000_000 + w.rng.Intn(5_000_000)))})
		case w.rng.Chance(50):
			in.tx(who, "vault.deposit-stable-mint", &vaulttypes.MsgDepositStableMintRequest{From: from, AppId: c16AppHarbor, ExtendedPairVaultId: c16StablePair,
				Amount: sdk.NewInt(int64(1_000_000 + w.rng.Intn(3_000_000))), StableVaultId: mine.Id})
		case w.rng.Chance(50):
			in.tx(who, "vault.withdraw-stable-mint", &vaulttypes.MsgWithdrawStableMintRequest{From: from, AppId: c16AppHarbor, ExtendedPairVaultId: c16StablePair,
				Amount: sdk.NewInt(int64(100_000 + w.rng.Intn(900_000))), StableVaultId: mine.Id})
		}
	}
	// --- lend: the remaining message types
	{
		lend := in.app.LendKeeper
		aATOM, aOSMO, aCMST := w.assetID["uatom"], w.assetID["uosmo"], w.assetID["ucmst"]
		if b%10 == 6 {
			who := 1 + w.rng.Intn(c16Users-1)
			if pairID := w.lendPair(aOSMO, aCMST, 2); pairID != 0 {
				in.tx(who, "lend.borrow-alternate", &lendtypes.MsgBorrowAlternate{Lender: w.addr(who).String(), AssetId: aOSMO, PoolId: 2, AmountIn: sdk.NewCoin("uosmo", sdk.NewInt(400_000_000)),
					PairId: pairID, IsStableBorrow: false, AmountOut: sdk.NewCoin("ucmst", sdk.NewInt(int64(20_000_000+w.rng.Intn(1_000_000)))), AppId: c16AppLend})
			}
		}
		if w.rng.Chance(20) {
			borrows := lend.GetAllBorrow(in.ctx)
			if len(borrows) > 0 {
				bw := borrows[w.rng.Intn(len(borrows))]
				if l, ok := lend.GetLend(in.ctx, bw.LendingID); ok {
					if who := w.userIndex(l.Owner); who >= 0 && w.rng.Chance(40) {
						in.tx(who, "lend.repay-withdraw", &lendtypes.MsgRepayWithdraw{Borrower: l.Owner, BorrowId: bw.ID})
					}
				}
			}
		}
		if w.rng.Chance(12) {
			lends := lend.GetAllLend(in.ctx)
			if len(lends) > 0 {
				l := lends[w.rng.Intn(len(lends))]
				if who := w.userIndex(l.Owner); who > 0 {
					in.tx(who, "lend.close-lend", &lendtypes.MsgCloseLend{Lender: l.Owner, LendId: l.ID})
				}
			}
		}
		_ = aATOM
	}
	// --- auctionsV2 limit bids: withdraw a part / cancel
	if b%9 == 4 {
		who := w.user()
		prem := int64(5 + w.rng.Intn(10))
		if in.tx(who, "auctionsV2.limit-bid", aucv2types.NewMsgDepositLimitBid(w.addr(who).String(), 1, 2, sdk.NewInt(prem), sdk.NewCoin("ucmst", sdk.NewInt(int64(5_000_000+w.rng.Intn(20_000_000)))))) {
			w.limitBids = append(w.limitBids, c16LimitBid{who, prem})
		}
	}
	if len(w.limitBids) > 0 && w.rng.Chance(25) {
		i := w.rng.Intn(len(w.limitBids))
		lb := w.limitBids[i]
		if w.rng.Chance(50) {
			in.tx(lb.who, "auctionsV2.withdraw-limit-bid", &aucv2types.MsgWithdrawLimitBidRequest{CollateralTokenId: 1, DebtTokenId: 2, PremiumDiscount: sdk.NewInt(lb.premium),
				Bidder: w.addr(lb.who).String(), Amount: sdk.NewCoin("ucmst", sdk.NewInt(int64(1_000_000+w.rng.Intn(1_000_000))))})
		} else {
			in.tx(lb.who, "auctionsV2.cancel-limit-bid", &aucv2types.MsgCancelLimitBidRequest{CollateralTokenId: 1, DebtTokenId: 2, PremiumDiscount: sdk.NewInt(lb.premium), Bidder: w.addr(lb.who).String()})
			w.limitBids = append(w.limitBids[:i], w.limitBids[i+1:]...)
		}
	}
	// --- keeper-initiated liquidations of both generations while the CMDX price is down, and bids of the first generation
	if b%11 == 6 || b%11 == 7 {
		who := w.user()
		from := w.addr(who).String()
		vaults := in.app.VaultKeeper.GetVaults(in.ctx)
		if len(vaults) > 0 {
			v := vaults[w.rng.Intn(len(vaults))]
			in.tx(who, "liquidationsV2.liquidate-internal-keeper(vault)", &liqv2types.MsgLiquidateInternalKeeperRequest{From: from, LiqType: 0, Id: v.Id})
			v = vaults[w.rng.Intn(len(vaults))]
			in.tx(who, "liquidation.liquidate-vault", &liqv1types.MsgLiquidateVaultRequest{From: from, AppId: c16AppHarbor, VaultId: v.Id})
		}
		borrows := in.app.LendKeeper.GetAllBorrow(in.ctx)
		if len(borrows) > 0 {
			bw := borrows[w.rng.Intn(len(borrows))]
			in.tx(who, "liquidationsV2.liquidate-internal-keeper(borrow)", &liqv2types.MsgLiquidateInternalKeeperRequest{From: from, LiqType: 1, Id: bw.ID})
			bw = borrows[w.rng.Intn(len(borrows))]
			in.tx(who, "liquidation.liquidate-borrow", &liqv1types.MsgLiquidateBorrowRequest{From: from, BorrowId: bw.ID})
		}
		in.tx(who, "liquidationsV2.liquidate-external-keeper", &liqv2types.MsgLiquidateExternalKeeperRequest{From: from, AppId: c16AppHarbor, Owner: from,
			CollateralToken: sdk.NewCoin("ucmdx", sdk.NewInt(1_000_000)), DebtToken: sdk.NewCoin("ucmst", sdk.NewInt(1_000_000)), CollateralAssetId: 1, DebtAssetId: 2, IsDebtCmst: true})
	}
	if b%11 == 8 {
		// first-generation auctions exist only if the (switched-off) auction BeginBlocker created them; the bids are delivered
		// all the same (ante handler, routing, validation, rejection)
		who := w.user()
		from := w.addr(who).String()
		in.tx(who, "auction.dutch-bid", &auctiontypes.MsgPlaceDutchBidRequest{AuctionId: 1, Bidder: from, Amount: sdk.NewCoin("ucmdx", sdk.NewInt(1_000_000)), AppId: c16AppHarbor, AuctionMappingId: 3})
		in.tx(who, "auction.surplus-bid", &auctiontypes.MsgPlaceSurplusBidRequest{AuctionId: 1, Bidder: from, Amount: sdk.NewCoin("uharbor", sdk.NewInt(1_000_000)), AppId: c16AppHarbor, AuctionMappingId: 1})
		in.tx(who, "auction.debt-bid", &auctiontypes.MsgPlaceDebtBidRequest{AuctionId: 1, Bidder: from, Bid: sdk.NewCoin("ucmst", sdk.NewInt(1_000_000)),
			ExpectedUserToken: sdk.NewCoin("uharbor", sdk.NewInt(1_000_000)), AppId: c16AppHarbor, AuctionMappingId: 2})
		in.tx(who, "auction.dutch-lend-bid", &auctiontypes.MsgPlaceDutchLendBidRequest{AuctionId: 1, Bidder: from, Amount: sdk.NewCoin("ucatom", sdk.NewInt(1_000_000)), AppId: c16AppLend, AuctionMappingId: 3})
	}
	// --- emergency shutdown of app harbor near the end of the run
	if w.total > 0 {
		switch b {
		case w.total - 14:
			in.tx(0, "esm.deposit", &esmtypes.MsgDepositESM{AppId: c16AppHarbor, Depositor: w.addr(0).String(), Amount: sdk.NewCoin("uharbor", sdk.NewInt(2_000_000))})
			in.tx(0, "esm.execute(too early)", &esmtypes.MsgExecuteESM{AppId: c16AppHarbor, Depositor: w.addr(0).String()})
		case w.total - 13:
			in.tx(0, "esm.deposit", &esmtypes.MsgDepositESM{AppId: c16AppHarbor, Depositor: w.addr(0).String(), Amount: sdk.NewCoin("uharbor", sdk.NewInt(3_500_000))})
			in.tx(1, "esm.execute", &esmtypes.MsgExecuteESM{AppId: c16AppHarbor, Depositor: w.addr(1).String()})
		case w.total - 6, w.total - 3, w.total - 1:
			who := w.user()
			in.tx(who, "esm.collateral-redemption", &esmtypes.MsgCollateralRedemptionRequest{AppId: c16AppHarbor, Amount: sdk.NewCoin("ucmst", sdk.NewInt(int64(1_000_000+w.rng.Intn(2_000_000)))), From: w.addr(who).String()})
		}
	}
}

// c16MissingMsgTypes: which message types of the comdex modules were never delivered / never succeeded
func c16MissingMsgTypes(stats map[string]int) (never, neverOK []string) {
	for _, url := range chain.MakeEncodingConfig().InterfaceRegistry.ListImplementations(sdk.MsgInterfaceProtoName) {
		if !strings.HasPrefix(url, "/comdex.") {
			continue
		}
		ok, fail := stats["msg-ok:"+url], stats["msg-fail:"+url]
		if ok+fail == 0 {
			never = append(never, url)
		} else if ok == 0 {
			neverOK = append(neverOK, url)
		}
	}
	sort.Strings(never)
	sort.Strings(neverOK)
	return
}
