//go:build verif

package harness

import (
	"fmt"
	"testing"
	"time"

	chain "github.com/comdex-official/comdex/app"
	"github.com/comdex-official/comdex/app/wasm/bindings"
	assettypes "github.com/comdex-official/comdex/x/asset/types"
	auctionsV2 "github.com/comdex-official/comdex/x/auctionsV2"
	auctionsV2types "github.com/comdex-official/comdex/x/auctionsV2/types"
	liqtypes "github.com/comdex-official/comdex/x/liquidationsV2/types"
	tokenminttypes "github.com/comdex-official/comdex/x/tokenmint/types"
	tmproto "github.com/cometbft/cometbft/proto/tendermint/types"
	sdk "github.com/cosmos/cosmos-sdk/types"
	authtypes "github.com/cosmos/cosmos-sdk/x/auth/types"
)

func TestC13Scratch(t *testing.T) {
	app := chain.Setup(t, false)
	t0 := time.Unix(1700000000, 0).UTC()
	ctx := app.BaseApp.NewContext(false, tmproto.Header{Height: 10, Time: t0})
	for i, n := range []string{"CMDX", "CMST", "HARBOR"} {
		if err := app.AssetKeeper.AddAssetRecords(ctx, assettypes.Asset{Name: n, Denom: "ua" + u(uint64(i+1)), Decimals: sdk.NewInt(1000000), IsOnChain: true}); err != nil {
			t.Fatal(err)
		}
	}
	gov := sdk.AccAddress([]byte("gov_________________"))
	for _, n := range []string{"cswap", "harbor"} {
		if err := app.AssetKeeper.AddAppRecords(ctx, assettypes.AppData{Name: n, ShortName: n, MinGovDeposit: sdk.NewInt(1), GovTimeInSeconds: 900,
			GenesisToken: []assettypes.MintGenesisToken{{AssetId: 3, GenesisSupply: sdk.NewInt(1000000000000), IsGovToken: true, Recipient: gov.String()}}}); err != nil {
			t.Fatal(err)
		}
	}
	{
		m := &tokenminttypes.MsgMintNewTokensRequest{From: gov.String(), AppId: 2, AssetId: 3}
		_, err := app.MsgServiceRouter().Handler(m)(ctx, m)
		if err != nil {
			t.Fatal(err)
		}
	}
	mode := "surplus"
	for _, mode = range []string{"surplus", "debt"} {
		cctx, _ := ctx.CacheContext()
		c13v2(t, app, cctx, mode)
	}
}

func c13v2(t *testing.T, app *chain.App, ctx sdk.Context, mode string) {
	ck := app.CollectorKeeper
	err := ck.WasmSetCollectorLookupTable(ctx, &bindings.MsgSetCollectorLookupTable{AppID: 2, CollectorAssetID: 2, SecondaryAssetID: 3,
		SurplusThreshold: sdk.NewInt(10000000), DebtThreshold: sdk.NewInt(5000000), LockerSavingRate: sdk.MustNewDecFromStr("0.1"),
		LotSize: sdk.NewInt(200000), BidFactor: sdk.MustNewDecFromStr("0.01"), DebtLotSize: sdk.NewInt(2000000)})
	if err != nil {
		t.Fatal(err)
	}
	err = ck.WasmSetAuctionMappingForApp(ctx, &bindings.MsgSetAuctionMappingForApp{AppID: 2, AssetIDs: 2, IsSurplusAuctions: mode == "surplus", IsDebtAuctions: mode == "debt", AssetOutPrices: 1000000})
	if err != nil {
		t.Fatal(err)
	}
	app.NewliqKeeper.SetLiquidationWhiteListing(ctx, liqtypes.LiquidationWhiteListing{AppId: 2, Initiator: true, IsDutchActivated: true,
		DutchAuctionParam: &liqtypes.DutchAuctionParam{Premium: sdk.MustNewDecFromStr("1.2"), Discount: sdk.MustNewDecFromStr("0.7"), DecrementFactor: sdk.NewInt(1)},
		IsEnglishActivated: true, EnglishAuctionParam: &liqtypes.EnglishAuctionParam{DecrementFactor: sdk.NewInt(1)}, KeeeperIncentive: sdk.MustNewDecFromStr("0.1")})
	app.NewaucKeeper.SetAuctionParams(ctx, auctionsV2types.AuctionParams{AuctionDurationSeconds: 3600, Step: sdk.MustNewDecFromStr("0.1"),
		WithdrawalFee: sdk.ZeroDec(), ClosingFee: sdk.ZeroDec(), MinUsdValueLeft: 100000, BidFactor: sdk.MustNewDecFromStr("0.1"),
		LiquidationPenalty: sdk.MustNewDecFromStr("0.1"), AuctionBonus: sdk.ZeroDec()})
	colAddr := authtypes.NewModuleAddress("collectorV1")
	show := func(tag string) {
		nf, _ := ck.GetNetFeeCollectedData(ctx, 2, 2)
		fmt.Printf("%s %s: netfee(2,2)=%s collector=%s auctionV1=%s auctionsV2=%s\n", mode, tag, nf.NetFeesCollected,
			app.BankKeeper.GetAllBalances(ctx, colAddr), app.BankKeeper.GetAllBalances(ctx, authtypes.NewModuleAddress("auctionV1")),
			app.BankKeeper.GetAllBalances(ctx, authtypes.NewModuleAddress("auctionsV2")))
	}
	mint := func(mod string, c sdk.Coin) {
		if err := app.BankKeeper.MintCoins(ctx, "auctionsV2", sdk.NewCoins(c)); err != nil {
			t.Fatal(err)
		}
		if mod != "auctionsV2" {
			if err := app.BankKeeper.SendCoinsFromModuleToModule(ctx, "auctionsV2", mod, sdk.NewCoins(c)); err != nil {
				t.Fatal(err)
			}
		}
	}
	bidder := sdk.AccAddress([]byte("bidder______________"))
	if err := app.BankKeeper.MintCoins(ctx, "auctionsV2", sdk.NewCoins(sdk.NewCoin("ua3", sdk.NewInt(1e12)), sdk.NewCoin("ua2", sdk.NewInt(1e12)))); err != nil {
		t.Fatal(err)
	}
	if err := app.BankKeeper.SendCoinsFromModuleToAccount(ctx, "auctionsV2", bidder, sdk.NewCoins(sdk.NewCoin("ua3", sdk.NewInt(1e12)), sdk.NewCoin("ua2", sdk.NewInt(1e12)))); err != nil {
		t.Fatal(err)
	}
	if mode == "surplus" {
		// collector really holds what its books say: 20,000,000 of asset 2, recorded as net fees
		mint("collectorV1", sdk.NewCoin("ua2", sdk.NewInt(20000000)))
		if err := ck.SetNetFeeCollectedData(ctx, 2, 2, sdk.NewInt(20000000)); err != nil {
			t.Fatal(err)
		}
	} else {
		mint("collectorV1", sdk.NewCoin("ua2", sdk.NewInt(4700000)))
		if err := ck.SetNetFeeCollectedData(ctx, 2, 2, sdk.NewInt(4700000)); err != nil {
			t.Fatal(err)
		}
	}
	show("start")
	if err := app.NewliqKeeper.Liquidate(ctx); err != nil {
		fmt.Println("liquidate err", err)
	}
	show("after-activator")
	for _, a := range app.NewaucKeeper.GetAuctions(ctx) {
		fmt.Printf("auction %+v\n", a)
	}
	for _, lv := range app.NewliqKeeper.GetLockedVaults(ctx) {
		fmt.Printf("lockedvault id=%d init=%s coll=%s debt=%s target=%s collId=%d debtId=%d\n", lv.LockedVaultId, lv.InitiatorType, lv.CollateralToken, lv.DebtToken, lv.TargetDebt, lv.CollateralAssetId, lv.DebtAssetId)
	}
	var bid sdk.Coin
	if mode == "surplus" {
		bid = sdk.NewCoin("ua3", sdk.NewInt(200000))
	} else {
		bid = sdk.NewCoin("ua3", sdk.NewInt(1500000))
	}
	msg := &auctionsV2types.MsgPlaceMarketBidRequest{AuctionId: 1, Bidder: bidder.String(), Amount: bid}
	if err := msg.ValidateBasic(); err != nil {
		fmt.Println("vb", err)
	}
	h := app.MsgServiceRouter().Handler(msg)
	cc, write := ctx.CacheContext()
	_, err = h(cc, msg)
	fmt.Println("bid err:", err)
	if err == nil {
		write()
	}
	show("after-bid")
	fmt.Println("bidder:", app.BankKeeper.GetAllBalances(ctx, bidder))
	ctx = ctx.WithBlockTime(ctx.BlockTime().Add(2 * time.Hour)).WithBlockHeight(20)
	for _, a := range app.NewaucKeeper.GetAuctions(ctx) {
		cc2, _ := ctx.CacheContext()
		fmt.Println("direct close err:", app.NewaucKeeper.CloseEnglishAuction(cc2, a))
	}
	auctionsV2.BeginBlocker(ctx, app.NewaucKeeper)
	show("after-close")
	fmt.Println("bidder:", app.BankKeeper.GetAllBalances(ctx, bidder))
	fmt.Println("auctions left:", len(app.NewaucKeeper.GetAuctions(ctx)))
}
