//go:build verif

package harness

import (
	"fmt"
	"os"
	"regexp"
	"strconv"
	"strings"
	"testing"
	"time"

	abci "github.com/cometbft/cometbft/abci/types"
	authtypes "github.com/cosmos/cosmos-sdk/x/auth/types"
	sdk "github.com/cosmos/cosmos-sdk/types"

	chain "github.com/comdex-official/comdex/app"
	utils "github.com/comdex-official/comdex/types"
	"github.com/comdex-official/comdex/x/auction"
	auctiontypes "github.com/comdex-official/comdex/x/auction/types"
	"github.com/comdex-official/comdex/x/auctionsV2"
	aucv2types "github.com/comdex-official/comdex/x/auctionsV2/types"
	"github.com/comdex-official/comdex/x/bandoracle"
	"github.com/comdex-official/comdex/x/esm"
	esmtypes "github.com/comdex-official/comdex/x/esm/types"
	"github.com/comdex-official/comdex/x/lend"
	"github.com/comdex-official/comdex/x/liquidation"
	liqv1types "github.com/comdex-official/comdex/x/liquidation/types"
	lockertypes "github.com/comdex-official/comdex/x/locker/types"
	rewardstypes "github.com/comdex-official/comdex/x/rewards/types"
	"github.com/comdex-official/comdex/x/liquidationsV2"
	liqv2types "github.com/comdex-official/comdex/x/liquidationsV2/types"
	"github.com/comdex-official/comdex/x/liquidity"
	"github.com/comdex-official/comdex/x/market"
	"github.com/comdex-official/comdex/x/rewards"
)

// at(h): run the blocker at a block height that is a multiple of h (periodic branches of the hooks)
func c15At(ctx sdk.Context, h int64) sdk.Context {
	return ctx.WithBlockHeight((ctx.BlockHeight()/h + 1) * h)
}

func c15Blockers() []c15Blocker {
	req := abci.RequestBeginBlock{}
	return []c15Blocker{
		{"liquidity.BeginBlocker", func(a *chain.App, c sdk.Context) { liquidity.BeginBlocker(c, a.LiquidityKeeper, a.AssetKeeper) }},
		{"liquidity.BeginBlocker@150", func(a *chain.App, c sdk.Context) { liquidity.BeginBlocker(c15At(c, 150), a.LiquidityKeeper, a.AssetKeeper) }},
		{"liquidity.EndBlocker", func(a *chain.App, c sdk.Context) { liquidity.EndBlocker(c, a.LiquidityKeeper, a.AssetKeeper) }},
		{"liquidation.BeginBlocker", func(a *chain.App, c sdk.Context) { liquidation.BeginBlocker(c, req, a.LiquidationKeeper) }},
		{"liquidationsV2.BeginBlocker", func(a *chain.App, c sdk.Context) { liquidationsV2.BeginBlocker(c, req, a.NewliqKeeper) }},
		{"auction.BeginBlocker", func(a *chain.App, c sdk.Context) {
			auction.BeginBlocker(c, a.AuctionKeeper, a.AssetKeeper, a.CollectorKeeper, a.EsmKeeper)
		}},
		{"auctionsV2.BeginBlocker", func(a *chain.App, c sdk.Context) { auctionsV2.BeginBlocker(c, a.NewaucKeeper) }},
		{"rewards.BeginBlocker", func(a *chain.App, c sdk.Context) { rewards.BeginBlocker(c, req, a.Rewardskeeper) }},
		{"rewards.EndBlocker", func(a *chain.App, c sdk.Context) { rewards.EndBlocker(c, a.Rewardskeeper) }},
		{"lend.BeginBlocker", func(a *chain.App, c sdk.Context) { lend.BeginBlocker(c, req, a.LendKeeper) }},
		{"lend.BeginBlocker@14400", func(a *chain.App, c sdk.Context) { lend.BeginBlocker(c15At(c, 14400), req, a.LendKeeper) }},
		{"esm.BeginBlocker", func(a *chain.App, c sdk.Context) { esm.BeginBlocker(c, req, a.EsmKeeper, a.AssetKeeper) }},
		{"market.BeginBlocker", func(a *chain.App, c sdk.Context) { market.BeginBlocker(c, req, a.MarketKeeper, a.BandoracleKeeper, a.AssetKeeper) }},
		{"market.BeginBlocker@20", func(a *chain.App, c sdk.Context) {
			market.BeginBlocker(c15At(c, 20), req, a.MarketKeeper, a.BandoracleKeeper, a.AssetKeeper)
		}},
		{"bandoracle.BeginBlocker", func(a *chain.App, c sdk.Context) { bandoracle.BeginBlocker(c, req, a.BandoracleKeeper) }},
		{"bandoracle.BeginBlocker@20", func(a *chain.App, c sdk.Context) { bandoracle.BeginBlocker(c15At(c, 20), req, a.BandoracleKeeper) }},
	}
}

func c15Find(name string) c15Blocker {
	for _, b := range c15Blockers() {
		if b.name == name {
			return b
		}
	}
	panic("no blocker " + name)
}

// apply runs a blocker for real on the live state (no injection) and keeps the result.
func (w *c15World) apply(name string) {
	r := w.run(w.ctx, c15Find(name), 0, 0, false)
	if !r.returned {
		w.t.Fatalf("c15: %s panicked while advancing the fixture: %s", name, r.msg)
	}
	w.ctx = r.ctx
}

// ---------------------------------------------------------------------------------------------------------------
// environment faults (prepared in the state; no gas trick)

type c15Env struct {
	name string
	prep func(w *c15World, ctx sdk.Context)
}

func c15Envs() []c15Env {
	return []c15Env{
		{"inactive-prices", func(w *c15World, ctx sdk.Context) {
			for _, twa := range w.app.MarketKeeper.GetAllTwa(ctx) {
				twa.IsPriceActive = false
				w.app.MarketKeeper.SetTwa(ctx, twa)
			}
		}},
		{"zero-prices", func(w *c15World, ctx sdk.Context) {
			// the band feed reports 0 for every symbol: UpdatePriceList deactivates, Twa stays
			for _, twa := range w.app.MarketKeeper.GetAllTwa(ctx) {
				twa.IsPriceActive = false
				twa.Twa = 0
				w.app.MarketKeeper.SetTwa(ctx, twa)
			}
		}},
		{"drained-modules", func(w *c15World, ctx sdk.Context) {
			sink := c15Addr(9999)
			var mods []sdk.AccAddress
			w.app.AccountKeeper.IterateAccounts(ctx, func(a authtypes.AccountI) bool {
				if _, ok := a.(authtypes.ModuleAccountI); ok {
					mods = append(mods, a.GetAddress())
				}
				return false
			})
			for _, m := range mods {
				bal := w.app.BankKeeper.GetAllBalances(ctx, m)
				if !bal.IsZero() {
					_ = w.app.BankKeeper.SendCoins(ctx, m, sink, bal)
				}
			}
		}},
		{"missing-params", func(w *c15World, ctx sdk.Context) {
			apps, _ := w.app.AssetKeeper.GetApps(ctx)
			for _, a := range apps {
				ctx.KVStore(w.app.GetKey(auctiontypes.StoreKey)).Delete(auctiontypes.AuctionParamsKey(a.Id))
				ctx.KVStore(w.app.GetKey(liqv2types.StoreKey)).Delete(liqv2types.LiquidationWhiteListingKey(a.Id))
				ctx.KVStore(w.app.GetKey(esmtypes.StoreKey)).Delete(esmtypes.ESMTriggerParamsKey(a.Id))
			}
			ctx.KVStore(w.app.GetKey(aucv2types.StoreKey)).Delete(aucv2types.AuctionParamsKey)
		}},
		{"zero-batch", func(w *c15World, ctx sdk.Context) {
			// (the liquidation modules' batch size is validated positive by the params subspace: 0 is not reachable there)
			w.app.LiquidationKeeper.SetParams(ctx, liqv1types.Params{LiquidationBatchSize: 1})
			w.app.NewliqKeeper.SetParams(ctx, liqv2types.Params{LiquidationBatchSize: 1})
			apps, _ := w.app.AssetKeeper.GetApps(ctx)
			for _, a := range apps {
				p, err := w.app.LiquidityKeeper.GetGenericParams(ctx, a.Id)
				if err == nil {
					p.BatchSize = 0
					w.app.LiquidityKeeper.SetGenericParams(ctx, p)
				}
			}
		}},
		{"kill-switch", func(w *c15World, ctx sdk.Context) {
			apps, _ := w.app.AssetKeeper.GetApps(ctx)
			for _, a := range apps {
				_ = w.app.EsmKeeper.SetKillSwitchData(ctx, esmtypes.KillSwitchParams{AppId: a.Id, BreakerEnable: true})
			}
		}},
		{"debt-feed-inactive", func(w *c15World, ctx sdk.Context) {
			// only the debt assets of the vault pairs lose their feed (fixed-price-debt pairs do not need it to value
			// the debt, but the auction activators insist on it): a late error of the vault liquidation step
			for _, p := range w.app.AssetKeeper.GetPairs(ctx) {
				if twa, ok := w.app.MarketKeeper.GetTwa(ctx, p.AssetOut); ok {
					twa.IsPriceActive = false
					w.app.MarketKeeper.SetTwa(ctx, twa)
				}
			}
		}},
		{"no-auction-type", func(w *c15World, ctx sdk.Context) {
			apps, _ := w.app.AssetKeeper.GetApps(ctx)
			for _, a := range apps {
				if wl, ok := w.app.NewliqKeeper.GetLiquidationWhiteListing(ctx, a.Id); ok {
					wl.IsDutchActivated = false
					wl.IsEnglishActivated = false
					w.app.NewliqKeeper.SetLiquidationWhiteListing(ctx, wl)
				}
			}
		}},
		{"dutch-off", func(w *c15World, ctx sdk.Context) {
			apps, _ := w.app.AssetKeeper.GetApps(ctx)
			for _, a := range apps {
				if wl, ok := w.app.NewliqKeeper.GetLiquidationWhiteListing(ctx, a.Id); ok && !wl.IsEnglishActivated {
					wl.IsDutchActivated = false
					w.app.NewliqKeeper.SetLiquidationWhiteListing(ctx, wl)
				}
			}
		}},
	}
}

// sweepParams: what the vault sweeps of both generations will slice with, on this state.
func (w *c15World) sweepParams(ctx sdk.Context, gen int) (capV int, counter uint64, batch uint64, offsets []uint64) {
	vs := w.app.VaultKeeper.GetVaults(ctx)
	capV = cap(vs)
	counter = w.app.VaultKeeper.GetLengthOfVault(ctx)
	if gen == 2 {
		batch = w.app.NewliqKeeper.GetParams(ctx).LiquidationBatchSize
		h, _ := w.app.NewliqKeeper.GetLiquidationOffsetHolder(ctx, liqv2types.VaultLiquidationsOffsetPrefix, 0)
		return capV, counter, batch, []uint64{h.CurrentOffset}
	}
	batch = w.app.LiquidationKeeper.GetParams(ctx).LiquidationBatchSize
	for _, id := range w.app.LiquidationKeeper.GetAppIdsForLiquidation(ctx) {
		st, found := w.app.EsmKeeper.GetESMStatus(ctx, id)
		ks, _ := w.app.EsmKeeper.GetKillSwitchData(ctx, id)
		if ks.BreakerEnable || (found && st.Status) {
			continue
		}
		h, _ := w.app.LiquidationKeeper.GetLiquidationOffsetHolder(ctx, id, liqv1types.VaultLiquidationsOffsetPrefix)
		offsets = append(offsets, h.CurrentOffset)
	}
	return
}

func c15U64s(xs []uint64) string {
	if len(xs) == 0 {
		return "-"
	}
	return joinU(xs)
}

// envRun: every blocker on the (already faulted) state; reach = "1" if the state is reachable on chain.
func (w *c15World) envRun(scen string, state sdk.Context, reach string) {
	for _, blk := range c15Blockers() {
		r := w.run(state, blk, 0, 0, false)
		w.tr.Count("env-runs")
		w.envLine(scen, state, blk, reach, r)
		if r.returned {
			// units that report failure by themselves in this environment (late or early) must be invisible
			for ui, uu := range r.units {
				if !uu.committed && uu.own > 0 {
					ref := w.run(state, blk, ui+1, 0, false)
					if ref.injected {
						w.naturalLine(scen, blk, r, ref, ui+1)
					}
				}
			}
			if blk.name == "rewards.BeginBlocker" {
				w.subStepLines(scen, state, blk)
			}
		}
	}
}

// envLine: what a run of blk on state (no injection) did, with the inputs the model needs to predict it.
func (w *c15World) envLine(scen string, state sdk.Context, blk c15Blocker, reach string, r c15Result) {
	if !r.returned {
		w.tr.Count("env-panic:" + blk.name)
		w.panics = append(w.panics, scen+" "+blk.name+": "+r.msg)
	}
	switch {
	case strings.HasPrefix(blk.name, "liquidation.BeginBlocker"), strings.HasPrefix(blk.name, "liquidationsV2.BeginBlocker"):
		gen := 1
		if strings.HasPrefix(blk.name, "liquidationsV2") {
			gen = 2
		}
		capV, counter, batch, offs := w.sweepParams(state, gen)
		w.tr.Line("hooks.env.single", scen, blk.name, reach, c15Ret(r.returned), "sweep", strconv.Itoa(capV), u(counter), u(batch), c15U64s(offs))
		if gen == 2 {
			w.uloopLine(scen, state, blk, reach, r)
			w.stepsLine(scen, state, blk, reach, r)
		}
		w.postLine(scen, state, blk, reach, r, gen)
	default:
		w.tr.Line("hooks.env.single", scen, blk.name, reach, c15Ret(r.returned), "plain")
	}
}

// uloopLine: the second-generation borrow sweep. If the real blocker runs the borrows outside any unit, measure,
// item by item, what a wrapped sweep would do, and report what the real blocker did at the first failing item.
func (w *c15World) uloopLine(scen string, state sdk.Context, blk c15Blocker, reach string, real c15Result) {
	if !real.returned {
		return // the vault sweep prelude already panicked (reported by the sweep line)
	}
	ids, found := w.app.LendKeeper.GetBorrows(state)
	if !found || len(ids) == 0 {
		return
	}
	nVaultUnits := 0
	for _, uu := range real.units {
		if uu.parent == 0 {
			nVaultUnits++
		}
	}
	// reference: vault sweep exactly as the real code does it, then the borrows one by one under the wrapper discipline
	ref, _ := state.CacheContext()
	_ = w.app.NewliqKeeper.LiquidateVaults(ref, 0)
	vaultsInSlice := 0
	{
		capV, counter, batch, offs := w.sweepParams(state, 2)
		_ = capV
		s, e := liqv2types.GetSliceStartEndForLiquidations(int(counter), int(offs[0]), int(batch))
		if s == e {
			s, e = liqv2types.GetSliceStartEndForLiquidations(int(counter), 0, int(batch))
		}
		vaultsInSlice = e - s
	}
	if nVaultUnits > vaultsInSlice {
		// the borrows run inside units: covered by the fault campaign, nothing unwrapped to report
		w.tr.Count("uloop:borrows-are-wrapped")
		return
	}
	params := w.app.NewliqKeeper.GetParams(state)
	h, _ := w.app.NewliqKeeper.GetLiquidationOffsetHolder(state, liqv2types.VaultLiquidationsOffsetPrefix, 1)
	s, e := liqv2types.GetSliceStartEndForLiquidations(len(ids), int(h.CurrentOffset), int(params.LiquidationBatchSize))
	if s == e {
		s, e = liqv2types.GetSliceStartEndForLiquidations(len(ids), 0, int(params.LiquidationBatchSize))
	}
	slice := ids[s:e]
	for i, id := range slice {
		before := c15DumpState(w.app, w.stores, ref)
		cc, write := ref.CacheContext()
		var err error
		panicked, _ := try(func() { err = w.app.NewliqKeeper.LiquidateIndividualBorrow(cc, id, "", false) })
		if !panicked && err == nil {
			write()
			continue
		}
		// first failing item: did it write before failing (measured in isolation on its own branch)?
		write()
		wrote := len(c15DumpDiff(c15DumpState(w.app, w.stores, ref), before)) > 0
		kind := "err"
		if panicked {
			kind = "panic"
		}
		// what the property demands to be visible after the real blocker: exactly the items before i
		// (and whatever later items / the offset update / the surplus-debt pass add). Observations:
		//   atomic    — the failing item's writes are not visible in the real result
		//   remaining — the real blocker went on after the failing item (offset holder 1 updated)
		leakVisible := false
		if wrote && real.returned {
			// the real state contains the partial writes iff it equals "items < i committed + item i's partial writes"
			leakVisible = len(c15DumpDiff(real.dump, c15DumpState(w.app, w.stores, ref))) == 0
		}
		hAfter, _ := w.app.NewliqKeeper.GetLiquidationOffsetHolder(real.ctx, liqv2types.VaultLiquidationsOffsetPrefix, 1)
		remaining := hAfter.CurrentOffset == uint64(e)
		w.tr.Line("hooks.env.single", scen, blk.name, reach, c15Ret(real.returned), "uloop", strconv.Itoa(len(slice)), strconv.Itoa(i), kind, c15B(wrote),
			c15B(!leakVisible), c15B(remaining))
		w.tr.Count("uloop:" + kind)
		return
	}
}

// probeWrapper: the wrapper itself, dynamically, on a real context: write only on nil error, recover, cache isolation.
func (w *c15World) probeWrapper() {
	key := w.app.GetKey(liqv1types.StoreKey)
	probe := func(f func(ctx sdk.Context) error) (visible bool, errNil bool, escaped bool) {
		br, _ := w.ctx.CacheContext()
		var err error
		escaped, _ = try(func() { err = utils.ApplyFuncIfNoError(br, f) })
		return br.KVStore(key).Has([]byte("c15-probe")), err == nil, escaped
	}
	set := func(ctx sdk.Context) { ctx.KVStore(key).Set([]byte("c15-probe"), []byte{1}) }
	okV, okNil, okEsc := probe(func(ctx sdk.Context) error { set(ctx); return nil })
	errV, errNil, errEsc := probe(func(ctx sdk.Context) error { set(ctx); return fmt.Errorf("fail") })
	panV, panNil, panEsc := probe(func(ctx sdk.Context) error { set(ctx); panic("boom") })
	w.tr.Line("hooks.shape.single", c15B(okV), c15B(okNil), c15B(okEsc), c15B(errV), c15B(errNil), c15B(errEsc), c15B(panV), c15B(panNil), c15B(panEsc))
}

// ---------------------------------------------------------------------------------------------------------------

func TestC15(t *testing.T) {
	tr := OpenTrace(t, "c15.trace")
	defer tr.Close(t)
	ks := scale(5, 0) // faults per unit: quick = first, last and three strided accesses; thorough = every access
	if os.Getenv("VERIF_SEARCH") == "1" {
		ks = 0
	}
	nV := scale(3, 5)
	blockers := c15Blockers()
	var panics []string

	// ---- corpus first: D3 witness (one vault, V1 liquidation, ESM, auction expires with no bid) ------------------
	{
		w := c15NewWorld(t, tr, 12)
		w.setupV1(1)
		w.probeWrapper()
		w.setPrice(1, 1000000, true)
		w.advance(6, 1)
		w.apply("liquidation.BeginBlocker")
		w.triggerESM(1)
		w.advance(301, 50)
		w.apply("auction.BeginBlocker")
		w.advance(6, 1)
		w.envRun("corpus.d3", w.ctx, "1")
		panics = append(panics, w.panics...)
	}

	// ---- corpus: D-C15-1 witness — the unwrapped surplus kick-off of liquidationsV2.BeginBlocker (c15_kick_test.go) ----------------
	{
		w0 := &c15World{t: t, tr: tr}
		c15KickCampaign(w0, ks)
		panics = append(panics, w0.panics...)
	}

	// ---- configuration fault of the first generation: auction params with cusp 1.0 when the first vault is liquidated ⇒ a FLAT
	// Dutch auction (end price = initial price; `AddAuctionParams` validates nothing), params set back, a second, healthy
	// auction behind it. `RestartDutchAuctions` divides by (initial − end) (x/auction/keeper/dutch.go:495-497): the flat auction's
	// unit must fail INSIDE its wrapper, the healthy one must be processed, no panic may escape (seed s116) ---------------------
	{
		w := c15NewWorld(t, tr, 12)
		w.setupV1(2)
		ap, _ := w.app.AuctionKeeper.GetAuctionParams(w.ctx, 1)
		flat := ap
		flat.Cusp = sdk.MustNewDecFromStr("1.0")
		w.app.AuctionKeeper.SetAuctionParams(w.ctx, flat)
		w.app.LiquidationKeeper.SetParams(w.ctx, liqv1types.Params{LiquidationBatchSize: 1})
		w.advance(6, 1)
		w.setPrice(1, 1000000, true)
		w.apply("liquidation.BeginBlocker") // vault 1 ⇒ flat auction
		w.app.AuctionKeeper.SetAuctionParams(w.ctx, ap)
		for i := 0; i < 3 && len(w.app.AuctionKeeper.GetDutchAuctions(w.ctx, 1)) < 2; i++ {
			w.advance(6, 1)
			w.apply("liquidation.BeginBlocker") // vault 2 ⇒ healthy auction
		}
		as := w.app.AuctionKeeper.GetDutchAuctions(w.ctx, 1)
		for _, a := range as {
			if a.OutflowTokenInitialPrice.Equal(a.OutflowTokenEndPrice) {
				tr.Count("fixture:cfg.flat-auction")
			} else {
				tr.Count("fixture:cfg.healthy-auction")
			}
		}
		if len(as) != 2 || !as[0].OutflowTokenInitialPrice.Equal(as[0].OutflowTokenEndPrice) {
			t.Errorf("c15 cfg world: %d auctions, first flat = %v", len(as), len(as) > 0 && as[0].OutflowTokenInitialPrice.Equal(as[0].OutflowTokenEndPrice))
		}
		w.advance(100, 15)
		cfg := []c15Blocker{c15Find("auction.BeginBlocker")}
		w.envRun("cfg.flat-then-healthy", w.ctx, "1")
		w.campaign("cfg.flat-then-healthy", w.ctx, cfg, ks)
		// the healthy auction behind the flat one must have been updated by the real blocker
		{
			r := w.run(w.ctx, cfg[0], 0, 0, false)
			if r.returned {
				after := w.app.AuctionKeeper.GetDutchAuctions(r.ctx, 1)
				if len(after) == 2 && !after[1].OutflowTokenCurrentPrice.Equal(as[1].OutflowTokenCurrentPrice) {
					tr.Count("cfg:healthy-auction-updated-behind-flat")
				} else {
					tr.Count("cfg:healthy-auction-NOT-updated")
				}
			}
		}
		w.advance(301, 40)
		w.envRun("cfg.flat-then-healthy.expired", w.ctx, "1")
		w.campaign("cfg.flat-then-healthy.expired", w.ctx, cfg, ks)
		panics = append(panics, w.panics...)
	}

	// ---- per-app granularity of the liquidity hooks: multi-app worlds, natural poison and injected faults per app ---------
	{
		w0 := &c15World{t: t, tr: tr}
		c15ItemsCampaign(w0, 3, scale(5, 0))
		if thorough() {
			c15ItemsCampaign(w0, 2, 0)
		}
		panics = append(panics, w0.panics...)
	}

	// ---- generation 1 world ---------------------------------------------------------------------------------
	{
		w := c15NewWorld(t, tr, 12)
		w.setupV1(nV)
		w.setupLiquidity(1, "ucmdx", "ucmst", w.addr[6:10])
		w.createGauge(1, w.addr[0], "uharbor")
		w.activateVaultRewards(1, 1, w.addr[0], "uharbor")
		// a locker on CMST and an external locker-reward programme (best effort: a refused fixture message is only counted)
		if _, err := w.app.LockerKeeper.AddWhiteListedAsset(w.ctx, &lockertypes.MsgAddWhiteListedAssetRequest{From: w.addr[0].String(), AppId: 1, AssetId: 2}); err == nil {
			if err := w.deliver(lockertypes.NewMsgCreateLockerRequest(w.addr[0].String(), sdk.NewInt(50000000), 2, 1)); err == nil {
				tr.Count("fixture:v1.locker")
				w.fund(w.addr[0], "uharbor", 100000000)
				if err := w.deliver(rewardstypes.NewMsgActivateExternalRewardsLockers(1, 2, sdk.NewCoin("uharbor", sdk.NewInt(70000000)), 7, 1, w.addr[0])); err == nil {
					tr.Count("fixture:v1.ext-locker-rewards")
				} else {
					tr.Count("fixture:v1.ext-locker-rewards-rejected")
				}
			} else {
				tr.Count("fixture:v1.locker-rejected")
			}
		} else {
			tr.Count("fixture:v1.locker-whitelist-rejected")
		}
		w.advance(6, 1)
		w.campaign("v1.healthy", w.ctx, blockers, ks)
		{
			// a day later: the external vault rewards of the app are due
			st, _ := w.ctx.CacheContext()
			st = st.WithBlockTime(st.BlockTime().Add(90000 * time.Second)).WithBlockHeight(st.BlockHeight() + 15000)
			w.campaign("v1.healthy+1day", st, []c15Blocker{c15Find("rewards.BeginBlocker")}, ks)
			// the chain was halted for three days: the epochs and the daily programmes catch up
			st3, _ := w.ctx.CacheContext()
			st3 = st3.WithBlockTime(st3.BlockTime().Add(3 * 90000 * time.Second)).WithBlockHeight(st3.BlockHeight() + 1)
			w.campaign("v1.healthy+3days-halt", st3, []c15Blocker{c15Find("rewards.BeginBlocker")}, ks)
			for _, e := range c15Envs() {
				st2, _ := st.CacheContext()
				e.prep(w, st2)
				w.envRun("v1.healthy+1day+"+e.name, st2, "1")
			}
		}
		w.apply("liquidity.EndBlocker")
		w.apply("liquidity.BeginBlocker")
		w.advance(6, 1)
		w.liquidityFollowUp(1, "ucmdx", "ucmst", w.addr[6:10])
		w.setPrice(1, 1000000, true)
		w.campaign("v1.liquidatable", w.ctx, blockers, ks)
		for _, e := range c15Envs() {
			st, _ := w.ctx.CacheContext()
			e.prep(w, st)
			w.envRun("v1.liquidatable+"+e.name, st, "1")
			if thorough() {
				w.campaign("v1.liquidatable+"+e.name, st, blockers, ks)
			}
		}
		w.apply("liquidation.BeginBlocker")
		w.apply("liquidity.BeginBlocker") // (on chain every EndBlocker is preceded by the BeginBlocker's clean-up of finished requests)
		w.apply("liquidity.EndBlocker")
		w.advance(100, 15)
		w.apply("liquidity.BeginBlocker")
		// a partial bid on the first auction
		if as := w.app.AuctionKeeper.GetDutchAuctions(w.ctx, 1); len(as) > 0 {
			w.fund(w.addr[10], "ucmst", 100000000)
			err := w.deliver(auctiontypes.NewMsgPlaceDutchBid(w.addr[10].String(), as[0].AuctionId, sdk.NewCoin("ucmdx", sdk.NewInt(2000000)), 1, as[0].AuctionMappingId))
			if err == nil {
				tr.Count("fixture:v1.bid")
			} else {
				tr.Count("fixture:v1.bid-rejected")
			}
		}
		w.campaign("v1.auctions-open", w.ctx, blockers, ks)
		for _, e := range c15Envs() {
			st, _ := w.ctx.CacheContext()
			e.prep(w, st)
			w.envRun("v1.auctions-open+"+e.name, st, "1")
		}
		w.apply("auction.BeginBlocker")
		w.advance(301, 40)
		w.campaign("v1.auctions-expired", w.ctx, blockers, ks)
		for _, e := range c15Envs() {
			st, _ := w.ctx.CacheContext()
			e.prep(w, st)
			w.envRun("v1.auctions-expired+"+e.name, st, "1")
			if thorough() {
				w.campaign("v1.auctions-expired+"+e.name, st, blockers, ks)
			}
		}
		w.triggerESM(1)
		w.campaign("v1.esm-expired", w.ctx, blockers, ks)
		for _, e := range c15Envs() {
			st, _ := w.ctx.CacheContext()
			e.prep(w, st)
			w.envRun("v1.esm-expired+"+e.name, st, "1")
		}
		w.apply("auction.BeginBlocker")
		w.apply("esm.BeginBlocker") // the price snapshot of the shut-down app is taken in the first block after the trigger
		w.advance(6, 1)
		w.envRun("v1.after-esm-close", w.ctx, "1")
		w.advance(3700, 600)
		w.campaign("v1.esm-cooloff", w.ctx, blockers, ks)
		// the emergency-shutdown hook after the cool-off period, stage by stage (x/esm/abci.go:37-63): collateral redemption of the
		// vaults / stable vaults and the collector's debt redemption in the first block, the share calculation in the second
		esmOnly := []c15Blocker{c15Find("esm.BeginBlocker")}
		for _, e := range c15Envs() {
			st, _ := w.ctx.CacheContext()
			e.prep(w, st)
			w.envRun("v1.esm-cooloff+"+e.name, st, "1")
		}
		w.apply("esm.BeginBlocker")
		w.advance(6, 1)
		w.campaign("v1.esm-redeemed", w.ctx, esmOnly, ks)
		for _, e := range c15Envs() {
			st, _ := w.ctx.CacheContext()
			e.prep(w, st)
			w.envRun("v1.esm-redeemed+"+e.name, st, "1")
		}
		w.apply("esm.BeginBlocker")
		w.advance(6, 1)
		w.campaign("v1.esm-shares-done", w.ctx, esmOnly, ks)
		if st, ok := w.app.EsmKeeper.GetESMStatus(w.ctx, 1); ok {
			tr.Count(fmt.Sprintf("fixture:esm.status snapshot=%v vault=%v stable=%v collector=%v share=%v", st.SnapshotStatus, st.VaultRedemptionStatus,
				st.StableVaultRedemptionStatus, st.CollectorTransaction, st.ShareCalculation))
		}
		panics = append(panics, w.panics...)
	}

	// ---- generation 2 world ---------------------------------------------------------------------------------
	{
		w := c15NewWorld(t, tr, 12)
		w.setupV2(nV, nV)
		w.setupLiquidity(2, "uasset1", "uasset2", w.addr[6:10])
		// an external lend-reward programme on pool 1 / the borrowed asset (best effort)
		if err := w.deliver(rewardstypes.NewMsgActivateExternalRewardsLend(3, 1, []uint64{2}, 2, 1, sdk.NewCoin("uasset4", sdk.NewInt(70000000)), 1, 7, 1, w.addr[0])); err == nil {
			tr.Count("fixture:v2.ext-lend-rewards")
		} else {
			tr.Count("fixture:v2.ext-lend-rewards-rejected")
		}
		w.advance(6, 1)
		w.campaign("v2.healthy", w.ctx, blockers, ks)
		{
			st, _ := w.ctx.CacheContext()
			st = st.WithBlockTime(st.BlockTime().Add(90000 * time.Second)).WithBlockHeight(st.BlockHeight() + 15000)
			w.campaign("v2.healthy+1day", st, []c15Blocker{c15Find("rewards.BeginBlocker"), c15Find("lend.BeginBlocker"), c15Find("lend.BeginBlocker@14400")}, ks)
			for _, e := range c15Envs() {
				st2, _ := st.CacheContext()
				e.prep(w, st2)
				w.envRun("v2.healthy+1day+"+e.name, st2, "1")
			}
		}
		w.setPrice(2, 1000000, true) // vault collateral (and the borrows' debt asset) falls
		w.setPrice(1, 900000, true)  // the borrows' collateral falls further
		w.campaign("v2.liquidatable", w.ctx, blockers, ks)
		for _, e := range c15Envs() {
			st, _ := w.ctx.CacheContext()
			e.prep(w, st)
			w.envRun("v2.liquidatable+"+e.name, st, "1")
			if thorough() {
				w.campaign("v2.liquidatable+"+e.name, st, blockers, ks)
			}
		}
		w.apply("liquidationsV2.BeginBlocker")
		w.advance(600, 100)
		// limit bids and a partial market bid
		w.fund(w.addr[10], "uasset3", 100000000000)
		w.fund(w.addr[10], "uasset2", 100000000000)
		for _, prem := range []int64{5, 10, 15, 20} {
			if err := w.deliver(aucv2types.NewMsgDepositLimitBid(w.addr[10].String(), 2, 3, sdk.NewInt(prem), sdk.NewCoin("uasset3", sdk.NewInt(300000)))); err == nil {
				tr.Count("fixture:v2.limit-bid")
			} else {
				tr.Count("fixture:v2.limit-bid-rejected")
			}
		}
		if as := w.app.NewaucKeeper.GetAuctions(w.ctx); len(as) > 0 {
			if err := w.deliver(aucv2types.NewMsgPlaceMarketBid(w.addr[10].String(), as[0].AuctionId, sdk.NewCoin(as[0].DebtToken.Denom, sdk.NewInt(200000)))); err == nil {
				tr.Count("fixture:v2.market-bid")
			} else {
				tr.Count("fixture:v2.market-bid-rejected")
			}
		}
		w.campaign("v2.auctions-open", w.ctx, blockers, ks)
		for _, e := range c15Envs() {
			st, _ := w.ctx.CacheContext()
			e.prep(w, st)
			w.envRun("v2.auctions-open+"+e.name, st, "1")
			if thorough() {
				w.campaign("v2.auctions-open+"+e.name, st, blockers, ks)
			}
		}
		w.apply("auctionsV2.BeginBlocker")
		w.advance(600, 100)
		w.campaign("v2.auctions-later", w.ctx, blockers, ks)
		w.apply("auctionsV2.BeginBlocker")
		w.advance(1800, 300) // 3000 s into the 3600 s window: the auction price is below the oracle price, limit bids match
		w.campaign("v2.auctions-discounted", w.ctx, blockers, ks)
		w.apply("auctionsV2.BeginBlocker")
		w.advance(700, 100)
		w.campaign("v2.auctions-expired", w.ctx, blockers, ks)
		for _, e := range c15Envs() {
			st, _ := w.ctx.CacheContext()
			e.prep(w, st)
			w.envRun("v2.auctions-expired+"+e.name, st, "1")
		}
		panics = append(panics, w.panics...)
	}

	// ---- second generation under emergency shutdown: app 1 (governance token, ESM parameters) liquidated by x/liquidationsV2;
	// its Dutch auctions while ESM is active (price update) and after their end (TriggerEsm), plus the debt auction (English)
	// that the collector's low net fees kick off ---------------------------------------------------------------------------
	{
		w := c15NewWorld(t, tr, 12)
		w.setupV1(nV)
		dutch := liqv2types.DutchAuctionParam{Premium: c15Dec("1.2"), Discount: c15Dec("0.7"), DecrementFactor: sdk.NewInt(1)}
		english := liqv2types.EnglishAuctionParam{DecrementFactor: sdk.NewInt(1)}
		w.app.NewliqKeeper.SetLiquidationWhiteListing(w.ctx, liqv2types.LiquidationWhiteListing{AppId: 1, Initiator: true, IsDutchActivated: true,
			DutchAuctionParam: &dutch, IsEnglishActivated: true, EnglishAuctionParam: &english, KeeeperIncentive: c15Dec("0.1")})
		w.app.NewaucKeeper.SetAuctionParams(w.ctx, aucv2types.AuctionParams{AuctionDurationSeconds: 3600, Step: c15Dec("0.1"), WithdrawalFee: c15Dec("0.0"),
			ClosingFee: c15Dec("0.0"), MinUsdValueLeft: 100000, BidFactor: c15Dec("0.1"), LiquidationPenalty: c15Dec("0.1"), AuctionBonus: c15Dec("0.0")})
		w.advance(6, 1)
		w.setPrice(1, 1000000, true)
		g2 := []c15Blocker{c15Find("liquidationsV2.BeginBlocker"), c15Find("auctionsV2.BeginBlocker"), c15Find("esm.BeginBlocker")}
		w.campaign("g2esm.liquidatable", w.ctx, g2, ks)
		w.apply("liquidationsV2.BeginBlocker")
		tr.Stats["fixture:g2esm.auctions"] = len(w.app.NewaucKeeper.GetAuctions(w.ctx))
		w.advance(600, 100)
		w.triggerESM(1)
		w.apply("esm.BeginBlocker")
		w.advance(6, 1)
		w.campaign("g2esm.esm-auctions-open", w.ctx, g2, ks)
		for _, e := range c15Envs() {
			st, _ := w.ctx.CacheContext()
			e.prep(w, st)
			w.envRun("g2esm.esm-auctions-open+"+e.name, st, "1")
		}
		w.apply("auctionsV2.BeginBlocker")
		w.advance(3700, 600)
		w.campaign("g2esm.esm-auctions-ended", w.ctx, g2, ks)
		for _, e := range c15Envs() {
			st, _ := w.ctx.CacheContext()
			e.prep(w, st)
			w.envRun("g2esm.esm-auctions-ended+"+e.name, st, "1")
		}
		w.apply("auctionsV2.BeginBlocker")
		w.apply("esm.BeginBlocker")
		w.advance(6, 1)
		w.campaign("g2esm.after-close", w.ctx, g2, ks)
		tr.Stats["fixture:g2esm.auctions-after-close"] = len(w.app.NewaucKeeper.GetAuctions(w.ctx))
		panics = append(panics, w.panics...)
	}

	// ---- first-generation liquidation of lend positions: lend Dutch auctions of x/auction ---------------------
	{
		w := c15NewWorld(t, tr, 12)
		w.setupV2(0, nV)
		w.advance(6, 1)
		w.setPrice(2, 1000000, true)
		w.setPrice(1, 900000, true)
		w.campaign("l1.liquidatable", w.ctx, blockers, ks)
		w.apply("liquidation.BeginBlocker")
		w.advance(600, 100)
		w.campaign("l1.auctions-open", w.ctx, blockers, ks)
		for _, e := range c15Envs() {
			st, _ := w.ctx.CacheContext()
			e.prep(w, st)
			w.envRun("l1.auctions-open+"+e.name, st, "1")
		}
		w.apply("auction.BeginBlocker")
		w.advance(21700, 3000)
		w.campaign("l1.auctions-expired", w.ctx, blockers, ks)
		panics = append(panics, w.panics...)
	}

	// ---- several apps in the first-generation sweep: earlier apps' liquidations shrink list and counter within the
	// block; vault counts around the capacities Go gives an appended slice (1, 2, 4, 8 exact; 3, 5, 9 with slack) ----------
	{
		type mw struct {
			weak, strong []int
			interleave   bool
		}
		var worlds []mw
		remain := []int{1, 2, 4, 8}
		liq := []int{1, 2}
		if thorough() {
			remain = []int{1, 2, 3, 4, 5, 8, 9}
			liq = []int{1, 2, 3}
		}
		for _, r := range remain {
			for _, l := range liq {
				worlds = append(worlds, mw{[]int{l, 0}, []int{0, r}, false}) // app 1 liquidates, app 2 is swept after it
				if thorough() || (r+l)%2 == 0 {
					worlds = append(worlds, mw{[]int{0, l}, []int{r, 0}, false})       // control: the liquidating app is the last one
					worlds = append(worlds, mw{[]int{l, 1, 0}, []int{0, 0, r}, r%2 == 0}) // three apps, two of them liquidate
				}
			}
		}
		if thorough() {
			worlds = append(worlds, mw{[]int{2, 2, 2}, []int{1, 1, 1}, true}, mw{[]int{3, 0, 1}, []int{1, 4, 0}, true})
		}
		for wi, m := range worlds {
			w := c15NewWorld(t, tr, 2)
			w.setupV1Multi(m.weak, m.strong, m.interleave)
			w.advance(6, 1)
			w.setPrice(1, 1000000, true)
			total := 0
			for i := range m.weak {
				total += m.weak[i] + m.strong[i]
			}
			name := fmt.Sprintf("multi%d.w%v.s%v", wi, m.weak, m.strong)
			name = strings.ReplaceAll(name, " ", ",")
			seenBatch := map[uint64]bool{}
			for _, batch := range []uint64{1, 2, 3, uint64(total), 200} {
				if seenBatch[batch] {
					continue
				}
				seenBatch[batch] = true
				st, _ := w.ctx.CacheContext()
				w.app.LiquidationKeeper.SetParams(st, liqv1types.Params{LiquidationBatchSize: batch})
				w.app.NewliqKeeper.SetParams(st, liqv2types.Params{LiquidationBatchSize: batch})
				// consecutive blocks: the offsets advance, the earlier apps keep liquidating until nothing is left
				for blk := 0; blk < 4; blk++ {
					scen := fmt.Sprintf("%s.batch%d.block%d", name, batch, blk)
					halted := false
					for _, bn := range []string{"liquidation.BeginBlocker", "liquidationsV2.BeginBlocker", "auction.BeginBlocker"} {
						b := c15Find(bn)
						r := w.run(st, b, 0, 0, false)
						w.envLine(scen, st, b, "1", r)
						tr.Count("multi-app-runs")
						if !r.returned {
							tr.Count("multi-app-panics")
							halted = true
							break
						}
						st = r.ctx
					}
					if halted {
						break
					}
					st = st.WithBlockTime(st.BlockTime().Add(6 * time.Second)).WithBlockHeight(st.BlockHeight() + 1)
				}
				tr.Stats["multi-app-vaults-liquidated"] += len(w.app.LiquidationKeeper.GetLockedVaults(st))
				tr.Stats["multi-app-vaults-left"] += len(w.app.VaultKeeper.GetVaults(st))
			}
			panics = append(panics, w.panics...)
		}
		tr.Count("multi-app-worlds")
		tr.Stats["multi-app-worlds"] = len(worlds)
	}

	// ---- oracle feed histories through the unwrapped band / market begin-blockers ----------------------------------
	c15FeedCampaign(t, tr)

	// ---- synthetic counter/list mismatches: model of the sweep prelude vs the real sweeps (not findings) ------
	{
		w := c15NewWorld(t, tr, 12)
		w.setupV1(nV)
		rng := NewRng(seed() + 77)
		n := scale(40, 400)
		for i := 0; i < n; i++ {
			st, _ := w.ctx.CacheContext()
			lenV := uint64(len(w.app.VaultKeeper.GetVaults(st)))
			var c uint64
			switch rng.Intn(6) {
			case 0:
				c = lenV
			case 1:
				c = lenV + 1 + uint64(rng.Intn(3))
			case 2:
				c = uint64(rng.Intn(int(lenV) + 1))
			case 3:
				c = ^uint64(0) - uint64(rng.Intn(2))
			case 4:
				c = 1 << 63
			default:
				c = uint64(rng.Intn(12))
			}
			w.app.VaultKeeper.SetLengthOfVault(st, c)
			batch := []uint64{1, 2, 3, 200, ^uint64(0)}[rng.Intn(5)]
			off := []uint64{0, 1, 2, lenV, lenV + 1, ^uint64(0)}[rng.Intn(6)]
			w.app.LiquidationKeeper.SetParams(st, liqv1types.Params{LiquidationBatchSize: batch})
			w.app.NewliqKeeper.SetParams(st, liqv2types.Params{LiquidationBatchSize: batch})
			w.app.LiquidationKeeper.SetLiquidationOffsetHolder(st, liqv1types.VaultLiquidationsOffsetPrefix, liqv1types.LiquidationOffsetHolder{AppId: 1, CurrentOffset: off})
			w.app.NewliqKeeper.SetLiquidationOffsetHolder(st, liqv2types.VaultLiquidationsOffsetPrefix, liqv2types.LiquidationOffsetHolder{AppId: 0, CurrentOffset: off})
			for _, name := range []string{"liquidation.BeginBlocker", "liquidationsV2.BeginBlocker"} {
				blk := c15Find(name)
				r := w.run(st, blk, 0, 0, false)
				gen := 1
				if name == "liquidationsV2.BeginBlocker" {
					gen = 2
				}
				capV, counter, b, offs := w.sweepParams(st, gen)
				tr.Line("hooks.env.single", "synthetic.counter", name, "0", c15Ret(r.returned), "sweep", strconv.Itoa(capV), u(counter), u(b), c15U64s(offs))
				tr.Count("synthetic:returned=" + c15B(r.returned))
			}
		}
	}

	// static wrapper sites (regenerated table) vs the sites the runs went through
	if root := os.Getenv("VERIF_ROOT"); root != "" {
		if src, err := os.ReadFile(root + "/lean/Comdex/Gen/Hooks.lean"); err == nil {
			txt := string(src)
			if i := strings.Index(txt, "def units"); i >= 0 {
				txt = txt[i:]
				if j := strings.Index(txt, "\n]"); j >= 0 {
					txt = txt[:j]
				}
				var static, missing []string
				for _, m := range regexp.MustCompile(`"(x/[^"]+:\d+)"⟩`).FindAllStringSubmatch(txt, -1) {
					static = append(static, m[1])
					if tr.Stats["site:"+m[1]] == 0 {
						missing = append(missing, m[1])
					}
				}
				tr.Set("unit_sites_static", static)
				tr.Set("unit_sites_not_exercised", missing)
				if len(missing) > 0 {
					t.Logf("C15: wrapper sites in the table that no scenario reached: %v", missing)
				}
			}
		}
	}
	tr.Set("escaped_panics", panics)
	for _, p := range panics {
		t.Logf("C15 escaping panic: %s", p)
	}
}
