//go:build verif

package harness

import (
	"math"
	"testing"

	chain "github.com/comdex-official/comdex/app"
	assettypes "github.com/comdex-official/comdex/x/asset/types"
	markettypes "github.com/comdex-official/comdex/x/market/types"
	tmproto "github.com/cometbft/cometbft/proto/tendermint/types"
	sdk "github.com/cosmos/cosmos-sdk/types"
)

func twaState(twa markettypes.TimeWeightedAverage, found bool) string {
	if !found {
		return "none"
	}
	act := "false"
	if twa.IsPriceActive {
		act = "true"
	}
	return "vals=" + joinU(twa.PriceValue) + ";idx=" + u(twa.CurrentIndex) + ";twa=" + u(twa.Twa) + ";act=" + act + ";disc=" + i64(twa.DiscardedHeightDiff)
}

// TestC17 drives the real market keeper's UpdatePriceList / GetLatestPrice / CalcAssetPrice on a real
// store with generated sample sequences and writes one trace line per call.
func TestC17(t *testing.T) {
	tr := OpenTrace(t, "c17.trace")
	defer tr.Close(t)
	rng := NewRng(seed())
	app := chain.Setup(t, false)
	base := app.BaseApp.NewContext(false, tmproto.Header{Height: 1})
	// assets 1..: decimals 1 so that CalcAssetPrice(amt=1) = twa
	const nAssets = 64
	for i := 0; i < nAssets; i++ {
		err := app.AssetKeeper.AddAssetRecords(base, assettypes.Asset{
			Name: alphaName(i), Denom: "ua" + u(uint64(i)), Decimals: sdk.NewInt(1), IsOnChain: true, IsOraclePriceRequired: true,
		})
		if err != nil {
			t.Fatal(err)
		}
	}
	k := app.MarketKeeper
	seqs := scale(400, 6000)
	maxOps := scale(60, 200)
	boundary := []uint64{1, 2, 3, math.MaxUint64, math.MaxUint64 - 1, math.MaxUint64 / 2, math.MaxUint64/2 + 1, 1 << 63, 1<<63 - 1, 1 << 32, 1000000}
	corpus := [][3]uint64{} // (N, then rates) fixed corpus handled below
	_ = corpus
	for s := 0; s < seqs; s++ {
		// each sequence uses a fresh branch of the store so that records do not leak between sequences
		ctx, _ := base.CacheContext()
		id := uint64(1 + rng.Intn(nAssets))
		var N uint64
		switch {
		case s < 40:
			N = uint64(1 + s%4) // corpus-like: small windows first (N = 1 was a past failure)
		case rng.Chance(15):
			N = 1
		default:
			N = uint64(rng.Range(1, 12))
		}
		acc := int64([]int{0, 1, 2, 5, 50, 1000}[rng.Intn(6)])
		tr.Line("twa.begin", u(N), i64(acc))
		tr.Count("N:" + u(N))
		h := int64(1)
		nops := rng.Range(1, maxOps)
		mode := rng.Intn(4) // 0 mixed, 1 boundary heavy, 2 zero heavy, 3 small values
		var last uint64 = 5
		for o := 0; o < nops; o++ {
			h += int64(rng.Intn(4))
			if rng.Chance(10) {
				h += acc + int64(rng.Intn(3)) - 1
				if h < 1 {
					h = 1
				}
			}
			ctx = ctx.WithBlockHeight(h)
			p := rng.Intn(100)
			switch {
			case p < 3:
				// x/market/abci.go discard-all branch, per record
				twa, found := k.GetTwa(ctx, id)
				if found {
					twa.IsPriceActive = false
					twa.CurrentIndex = 0
					twa.PriceValue = twa.PriceValue[:0]
					k.SetTwa(ctx, twa)
				}
				got, f := k.GetTwa(ctx, id)
				tr.Line("twa.discard", "ok", twaState(got, f))
			case p < 7:
				twa, found := k.GetTwa(ctx, id)
				if found {
					twa.IsPriceActive = false
					k.SetTwa(ctx, twa)
				}
				got, f := k.GetTwa(ctx, id)
				tr.Line("twa.deact", "ok", twaState(got, f))
			default:
				var rate uint64
				q := rng.Intn(100)
				zeroPct := 8
				if mode == 2 {
					zeroPct = 35
				}
				switch {
				case q < zeroPct:
					rate = 0
				case mode == 1 && q < 70:
					rate = rng.Pick(boundary)
				case q < 20:
					rate = rng.Pick(boundary)
				case q < 35:
					rate = last
				case mode == 3:
					rate = uint64(1 + rng.Intn(20))
				default:
					rate = rng.U64() >> uint(rng.Intn(64))
				}
				if rate != 0 {
					last = rate
				}
				if rate == 0 {
					tr.Count("sample:zero")
				} else if rate > math.MaxUint64/2 {
					tr.Count("sample:huge")
				} else {
					tr.Count("sample:pos")
				}
				panicked, _ := try(func() { k.UpdatePriceList(ctx, id, 1, rate, N, acc) })
				if panicked {
					tr.Count("outcome:panic")
					tr.Line("twa.sample", u(rate), i64(h), "panic", "-")
					o = nops // abandon the sequence: the store may hold a partial write
					continue
				}
				got, f := k.GetTwa(ctx, id)
				if f && got.IsPriceActive {
					tr.Count("state:active")
				} else {
					tr.Count("state:inactive")
				}
				tr.Line("twa.sample", u(rate), i64(h), "ok", twaState(got, f))
			}
			if rng.Chance(30) {
				var v uint64
				var err error
				panicked, _ := try(func() { v, err = k.GetLatestPrice(ctx, id) })
				switch {
				case panicked:
					tr.Line("twa.latest", "panic", "-")
				case err != nil:
					tr.Line("twa.latest", "err", "-")
				default:
					tr.Line("twa.latest", "ok", u(v))
				}
			}
			if rng.Chance(30) {
				d, err := k.CalcAssetPrice(ctx, id, sdk.NewInt(1))
				if err != nil {
					tr.Line("twa.val", "err", "-")
				} else {
					tr.Line("twa.val", "ok", d.TruncateInt().String())
				}
			}
		}
	}
}
