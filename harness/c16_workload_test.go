//go:build verif

package harness

// The C16 workload: a program that is a pure function of (seed, tier) and of the state it reads back from the
// instance it runs on (ids, balances) — so the same program runs on every instance / process. Fixture patterns are
// those of the repository's keeper tests (x/liquidity, x/vault, x/locker, x/lend, x/rewards, x/liquidation, x/auction).

import (
	"fmt"
	"os"
	"time"

	sdk "github.com/cosmos/cosmos-sdk/types"

	"github.com/comdex-official/comdex/app/wasm/bindings"
	assettypes "github.com/comdex-official/comdex/x/asset/types"
	auctiontypes "github.com/comdex-official/comdex/x/auction/types"
	aucv2types "github.com/comdex-official/comdex/x/auctionsV2/types"
	lendtypes "github.com/comdex-official/comdex/x/lend/types"
	liqv2types "github.com/comdex-official/comdex/x/liquidationsV2/types"
	"github.com/comdex-official/comdex/x/liquidity/amm"
	liquiditytypes "github.com/comdex-official/comdex/x/liquidity/types"
	lockertypes "github.com/comdex-official/comdex/x/locker/types"
	markettypes "github.com/comdex-official/comdex/x/market/types"
	rewardstypes "github.com/comdex-official/comdex/x/rewards/types"
	tokenminttypes "github.com/comdex-official/comdex/x/tokenmint/types"
	vaulttypes "github.com/comdex-official/comdex/x/vault/types"
)

const (
	c16AppSwap   = 1 // cswap: liquidity
	c16AppHarbor = 2 // harbor: vaults, lockers, liquidation, auctions
	c16AppLend   = 3 // commodo: lend
)

type c16Workload struct {
	in    *c16Inst
	rng   *Rng
	thor  bool
	// 0 = the replayed workload; 1 = warm-up (twins flipped, reversed creation order, fixture blocks only)
	variant int
	price map[uint64]uint64 // asset id -> current oracle price (TWA)
	// liquidity
	pairs []c16Pair
	// ids discovered while running
	assetID map[string]uint64
	// probes
	epochSeen map[string]rewardstypes.EpochInfo
	seenMax   map[string]uint64
	// breadth (c16_breadth_test.go)
	limitBids []c16LimitBid
	total     int // number of blocks of the run (0 = open-ended: no emergency shutdown)
}

type c16Pair struct {
	id          uint64
	base, quote string
	mid         sdk.Dec // reference price around which orders are placed
	pools       []uint64
}

func c16NewWorkload(in *c16Inst, seed uint64, thor bool) *c16Workload {
	return &c16Workload{in: in, rng: NewRng(seed), thor: thor, price: map[uint64]uint64{}, assetID: map[string]uint64{}, epochSeen: map[string]rewardstypes.EpochInfo{}, seenMax: map[string]uint64{}}
}

// blockGap: seconds between blocks; every 8th block a day passes (epochs, gauges, reward distribution, interest);
// CHAIN HALTS: before block 21 (and every 24 blocks from there) the chain stands still for several days — more than two
// durations of every epoch in the store (12 h, 24 h, 36 h) —, the x/rewards BeginBlocker takes its halt-recovery branch.
func (w *c16Workload) blockGap(b int) int64 {
	if w.isHalt(b) {
		return int64(3+(b/24)%3)*86400 + 7*3600 + 13
	}
	if b > 0 && b%8 == 0 {
		return 86400 + 60
	}
	if b > 0 && b%8 == 4 {
		return 12*3600 + 30 // half a day: the 12 h epoch runs at another rhythm than the 24 h epoch
	}
	return 6
}

func (w *c16Workload) isHalt(b int) bool { return b >= 21 && b%24 == 21 }

// probe (after the block's Commit): counts what the begin / end blockers did, from the state they left
func (w *c16Workload) probe(b int) {
	in := w.in
	ctx := in.app.BaseApp.NewUncachedContext(false, in.header)
	for _, e := range in.app.Rewardskeeper.GetAllEpochInfos(ctx) {
		key := "epoch:" + e.Duration.String()
		if prev, ok := w.epochSeen[key]; ok {
			if e.CurrentEpoch > prev.CurrentEpoch {
				in.stats["unit:rewards-epoch-trigger:"+e.Duration.String()]++
			} else if !e.CurrentEpochStartTime.Equal(prev.CurrentEpochStartTime) && prev.CurrentEpoch > 0 {
				in.stats["unit:rewards-epoch-halt-recovery:"+e.Duration.String()]++
			}
		}
		w.epochSeen[key] = e
	}
	if w.isHalt(b) {
		in.stats["chain-halt-blocks"]++
	}
	// new objects created by begin / end blockers and handlers, by their highest id / count
	grow := func(key string, n uint64) {
		if n > w.seenMax[key] {
			in.stats["unit:"+key] += int(n - w.seenMax[key])
			w.seenMax[key] = n
		}
	}
	var maxAuc uint64
	for _, a := range in.app.NewaucKeeper.GetAuctions(ctx) {
		if a.AuctionId > maxAuc {
			maxAuc = a.AuctionId
		}
	}
	grow("auctionsV2-auction-started", maxAuc)
	var maxLv uint64
	for _, lv := range in.app.NewliqKeeper.GetLockedVaults(ctx) {
		if lv.LockedVaultId > maxLv {
			maxLv = lv.LockedVaultId
		}
	}
	grow("liquidationsV2-locked-vault", maxLv)
	grow("liquidationV1-locked-vault", uint64(len(in.app.LiquidationKeeper.GetLockedVaults(ctx))))
	var trig, extEpochs uint64
	for _, g := range in.app.Rewardskeeper.GetAllGauges(ctx) {
		trig += g.TriggeredCount
	}
	grow("rewards-gauge-distribution", trig)
	for id := uint64(1); id <= in.app.Rewardskeeper.GetEpochTimeID(ctx); id++ {
		if e, ok := in.app.Rewardskeeper.GetEpochTime(ctx, id); ok {
			extEpochs += e.Count
		}
	}
	grow("rewards-external-programme-day", extEpochs)
	if st, ok := in.app.EsmKeeper.GetESMStatus(ctx, c16AppHarbor); ok && st.Status {
		in.stats["unit:esm-active-block"]++
		if st.SnapshotStatus {
			in.stats["unit:esm-snapshot-taken-block"]++
		}
		if st.VaultRedemptionStatus {
			in.stats["unit:esm-vault-redemption-set-up-block"]++
		}
	}
	inactive := 0
	for _, t := range in.app.MarketKeeper.GetAllTwa(ctx) {
		if !t.IsPriceActive {
			inactive++
		}
	}
	if inactive > 0 {
		in.stats["unit:market-prices-inactive-block"]++
	}
}

func (w *c16Workload) must(err error, what string) {
	if err != nil {
		w.in.t.Fatalf("c16 fixture (h=%d): %s: %v", w.in.height, what, err)
	}
}

func c16D(s string) sdk.Dec { return sdk.MustNewDecFromStr(s) }

func (w *c16Workload) fund(who int, denom string, amt int64) {
	c := sdk.NewCoins(sdk.NewCoin(denom, sdk.NewInt(amt)))
	w.must(w.in.app.BankKeeper.MintCoins(w.in.ctx, tokenminttypes.ModuleName, c), "mint")
	w.must(w.in.app.BankKeeper.SendCoinsFromModuleToAccount(w.in.ctx, tokenminttypes.ModuleName, w.in.addrs[who], c), "send")
}

func (w *c16Workload) setPrice(assetID, price uint64) {
	w.price[assetID] = price
	w.in.app.MarketKeeper.SetTwa(w.in.ctx, markettypes.TimeWeightedAverage{
		AssetID: assetID, ScriptID: 12, Twa: price, CurrentIndex: 0, IsPriceActive: price > 0, PriceValue: []uint64{price},
	})
	w.in.stats["oracle:set"]++
}

func (w *c16Workload) newAsset(name, denom string, oracle bool, price uint64) uint64 {
	w.must(w.in.app.AssetKeeper.AddAssetRecords(w.in.ctx, assettypes.Asset{Name: name, Denom: denom, Decimals: sdk.NewInt(1000000),
		IsOnChain: true, IsOraclePriceRequired: oracle, IsCdpMintable: true}), "asset "+name)
	for _, a := range w.in.app.AssetKeeper.GetAssets(w.in.ctx) {
		if a.Denom == denom {
			w.assetID[denom] = a.Id
			if oracle {
				w.setPrice(a.Id, price)
			}
			return a.Id
		}
	}
	w.in.t.Fatalf("asset %s not stored", name)
	return 0
}

func (w *c16Workload) addr(i int) sdk.AccAddress { return w.in.addrs[i] }
func (w *c16Workload) user() int                 { return w.rng.Intn(c16Users) }

func (w *c16Workload) bal(who int, denom string) sdk.Int {
	return w.in.app.BankKeeper.GetBalance(w.in.ctx, w.addr(who), denom).Amount
}

// block b of the workload (called between BeginBlock and EndBlock)
func (w *c16Workload) block(b int) {
	switch b {
	case 0:
		w.fixtureAssets()
		w.fixtureLiquidity()
	case 1:
		if w.variant == 0 {
			w.fixtureLiquidity2()
		}
		w.fixtureVaultLocker()
	case 2:
		w.fixtureLend()
		if w.variant == 0 {
			w.breadthFixture()
		}
	default:
		w.oracleStep(b)
		if b == 3 {
			w.twinPositions()
		}
		w.liquidityStep(b)
		w.vaultLockerStep(b)
		w.lendStep(b)
		w.liquidationAuctionStep(b)
		w.breadthStep(b)
	}
}

// ---------------------------------------------------------------------------------------------------------------
// fixtures

func (w *c16Workload) fixtureAssets() {
	ak := w.in.app.AssetKeeper
	// the band feed is healthy (otherwise the market BeginBlocker deactivates every price in every block)
	w.in.app.BandoracleKeeper.SetOracleValidationResult(w.in.ctx, true)
	w.newAsset("CMDX", "ucmdx", true, 2_000_000)
	w.newAsset("CMST", "ucmst", true, 1_000_000)
	w.newAsset("HARBOR", "uharbor", false, 0)
	w.newAsset("ATOM", "uatom", true, 10_000_000)
	w.newAsset("OSMO", "uosmo", true, 500_000)
	w.newAsset("CCMDX", "uccmdx", true, 2_000_000)
	w.newAsset("CATOM", "ucatom", true, 10_000_000)
	w.newAsset("CCMST", "uccmst", true, 1_000_000)
	w.newAsset("COSMO", "ucosmo", true, 500_000)
	gov := w.addr(0).String()
	w.must(ak.AddAppRecords(w.in.ctx, assettypes.AppData{Name: "cswap", ShortName: "cswap", MinGovDeposit: sdk.NewInt(0)}), "app cswap")
	w.must(ak.AddAppRecords(w.in.ctx, assettypes.AppData{
		Name: "harbor", ShortName: "hbr", MinGovDeposit: sdk.NewInt(10000000), GovTimeInSeconds: 900,
		GenesisToken: []assettypes.MintGenesisToken{
			{AssetId: 3, GenesisSupply: sdk.NewInt(1_000_000_000_000), IsGovToken: true, Recipient: gov},
			{AssetId: 2, GenesisSupply: sdk.NewInt(1_000_000_000_000), IsGovToken: false, Recipient: gov},
		},
	}), "app harbor")
	w.must(ak.AddAppRecords(w.in.ctx, assettypes.AppData{Name: "commodo", ShortName: "cmdo", MinGovDeposit: sdk.NewInt(0)}), "app commodo")
	for i := 0; i < c16Users; i++ {
		for _, d := range []string{"ucmst", "uatom", "uosmo", "uharbor"} {
			w.fund(i, d, 1_000_000_000_000)
		}
	}
}

// The liquidity fixture is a list of pool specifications. It contains TWINS: pools that agree in everything a
// computation could be keyed on except one parameter (single-sided ranged pools with equal deposits and equal minPrice
// but different maxPrice on different pairs; ranged pools differing only in minPrice; only in the deposit). A memo or
// cache keyed on a subset of the arguments is hit by them.
//   variant 0 (the replayed workload): block 0 creates the pairs, the single-sided pool S1 (pool 1, pair 1), the basic
//     pools and crossing orders on pair 1, so that the very first ranged-pool evaluations of an instance matter for
//     balances; block 1 creates the other ranged pools, the twin S2 of S1 last (highest pool id on the last pair).
//   variant 1 (the WARM-UP run between instance A and instance B): the pairs in reverse order and every twin flipped,
//     the flipped twin of S1 created LAST on the LAST pair and never traded — so the last ranged-pool evaluation of the
//     warm-up and the first one of instance B agree in all but one argument. No orders.
type c16PoolSpec struct {
	pair             int // index into w.pairs
	base, quote      int64
	lo, hi, init     string // "" = basic pool
}

func (w *c16Workload) createPools(specs []c16PoolSpec) {
	in := w.in
	creator := 0
	for _, sp := range specs {
		p := w.pairs[sp.pair]
		coins := sdk.NewCoins()
		if sp.base > 0 {
			coins = coins.Add(sdk.NewCoin(p.base, sdk.NewInt(sp.base)))
		}
		if sp.quote > 0 {
			coins = coins.Add(sdk.NewCoin(p.quote, sdk.NewInt(sp.quote)))
		}
		var ok bool
		if sp.lo == "" {
			ok = in.tx(creator, "liquidity.create-pool", liquiditytypes.NewMsgCreatePool(c16AppSwap, w.addr(creator), p.id, coins))
		} else {
			ok = in.tx(creator, "liquidity.create-ranged-pool", liquiditytypes.NewMsgCreateRangedPool(c16AppSwap, w.addr(creator), p.id, coins, c16D(sp.lo), c16D(sp.hi), c16D(sp.init)))
		}
		if !ok {
			in.t.Fatalf("c16: create pool %+v failed", sp)
		}
	}
	// pool ids as stored
	for i := range w.pairs {
		w.pairs[i].pools = nil
	}
	for _, pool := range in.app.LiquidityKeeper.GetAllPools(in.ctx, c16AppSwap) {
		for i := range w.pairs {
			if w.pairs[i].id == pool.PairId {
				w.pairs[i].pools = append(w.pairs[i].pools, pool.Id)
			}
		}
	}
}

const c16TwinDeposit = 500_000_000

func (w *c16Workload) fixtureLiquidity() {
	in := w.in
	creator := 0
	type pairSpec struct{ base, quote, mid string }
	pairSpecs := []pairSpec{{"ucmdx", "ucmst", "2.0"}, {"uatom", "ucmst", "10.0"}, {"uosmo", "ucmst", "2.0"}}
	if w.variant == 1 {
		pairSpecs = []pairSpec{pairSpecs[2], pairSpecs[1], pairSpecs[0]}
	}
	for _, ps := range pairSpecs {
		if !in.tx(creator, "liquidity.create-pair", liquiditytypes.NewMsgCreatePair(c16AppSwap, w.addr(creator), ps.base, ps.quote)) {
			in.t.Fatalf("c16: create pair %s/%s failed", ps.base, ps.quote)
		}
		w.pairs = append(w.pairs, c16Pair{id: uint64(len(w.pairs) + 1), base: ps.base, quote: ps.quote, mid: c16D(ps.mid)})
	}
	if w.variant == 1 {
		// warm-up: everything at once, twins flipped (maxPrice 2.5 <-> 3.0, minPrice 1.5 <-> 1.6), S1's twin last on the last pair
		w.createPools([]c16PoolSpec{
			{pair: 0, base: 800_000_000, quote: 1_600_000_000},
			{pair: 1, base: 100_000_000, quote: 1_000_000_000},
			{pair: 2, base: 500_000_000, quote: 1_000_000_000},
			{pair: 0, base: c16TwinDeposit, lo: "2.0", hi: "2.5", init: "2.0"},
			{pair: 1, base: 50_000_000, quote: 500_000_000, lo: "8.0", hi: "12.0", init: "10.0"},
			{pair: 2, base: 300_000_000, quote: 600_000_000, lo: "1.6", hi: "2.5", init: "2.0"},
			{pair: 2, base: c16TwinDeposit, lo: "2.0", hi: "3.0", init: "2.0"},
		})
		return
	}
	w.createPools([]c16PoolSpec{
		{pair: 0, base: c16TwinDeposit, lo: "2.0", hi: "2.5", init: "2.0"}, // S1: single-sided (initial price = min price), pool 1
		{pair: 0, base: 500_000_000, quote: 1_000_000_000},
		{pair: 1, base: 100_000_000, quote: 1_000_000_000},
		{pair: 2, base: 800_000_000, quote: 1_600_000_000},
	})
	// buyers above 2.0 on pair 1 already in this block: S1 sells into them in the first batch
	for i := 0; i < 4; i++ {
		w.limitOrder(1+i, w.pairs[0], true, w.tickPrice(w.pairs[0], 2+2*i), sdk.NewInt(int64(40_000_000+1_000_000*i)), 30*time.Second)
	}
}

// the other ranged pools (block 1 of the replayed workload)
func (w *c16Workload) fixtureLiquidity2() {
	w.createPools([]c16PoolSpec{
		{pair: 0, base: 300_000_000, quote: 600_000_000, lo: "1.5", hi: "2.5", init: "2.0"},
		{pair: 0, base: 200_000_000, quote: 400_000_000, lo: "1.8", hi: "2.3", init: "2.0"},
		{pair: 1, base: 50_000_000, quote: 500_000_000, lo: "8.0", hi: "12.0", init: "10.0"},
		{pair: 2, base: 300_000_000, quote: 600_000_000, lo: "1.6", hi: "2.5", init: "2.0"},  // twin of pool (pair 1, 1.5..2.5): minPrice differs
		{pair: 2, base: 300_000_001, quote: 600_000_000, lo: "1.6", hi: "2.5", init: "2.0"},  // twin of the previous: deposit differs by one unit
		{pair: 2, base: c16TwinDeposit, lo: "2.0", hi: "3.0", init: "2.0"},                   // S2: twin of S1, maxPrice differs; last pool of the last pair
	})
}

func (w *c16Workload) fixtureVaultLocker() {
	in := w.in
	ak := in.app.AssetKeeper
	// harbor (app 2): vault pair CMDX(1) -> CMST(2)
	w.must(ak.AddPairsRecords(in.ctx, assettypes.Pair{AssetIn: 1, AssetOut: 2}), "pair 1->2")
	w.must(ak.WasmAddExtendedPairsVaultRecords(in.ctx, &bindings.MsgAddExtendedPairsVault{
		AppID: c16AppHarbor, PairID: 1, StabilityFee: c16D("0.05"), ClosingFee: c16D("0"), LiquidationPenalty: c16D("0.12"), DrawDownFee: c16D("0.01"),
		IsVaultActive: true, DebtCeiling: sdk.NewInt(1_000_000_000_000), DebtFloor: sdk.NewInt(1_000_000), IsStableMintVault: false,
		MinCr: c16D("1.5"), PairName: "CMDX-B", AssetOutOraclePrice: true, AssetOutPrice: 1_000_000, MinUsdValueLeft: 1_000_000,
	}), "ext pair")
	// first-generation liquidation / auction (their BeginBlockers are switched off in x/liquidation/module.go and
	// x/auction/module.go; configured all the same, as on the live chain)
	w.must(in.app.LiquidationKeeper.WasmWhitelistAppIDLiquidation(in.ctx, c16AppHarbor), "whitelist liquidation")
	in.app.AuctionKeeper.SetAuctionParams(in.ctx, auctiontypes.AuctionParams{
		AppId: c16AppHarbor, AuctionDurationSeconds: 300, Buffer: c16D("1.2"), Cusp: c16D("0.6"),
		Step: sdk.NewIntFromUint64(1), PriceFunctionType: 1, SurplusId: 1, DebtId: 2, DutchId: 3, BidDurationSeconds: 300,
	})
	// second generation (live): liquidationsV2 BeginBlocker liquidates vaults of app 2 and borrows of app 3 into
	// auctionsV2 dutch auctions
	dutch := liqv2types.DutchAuctionParam{Premium: c16D("1.2"), Discount: c16D("0.7"), DecrementFactor: sdk.NewInt(1)}
	english := liqv2types.EnglishAuctionParam{DecrementFactor: sdk.NewInt(1)}
	in.app.NewliqKeeper.SetLiquidationWhiteListing(in.ctx, liqv2types.LiquidationWhiteListing{AppId: c16AppHarbor, Initiator: true, IsDutchActivated: true,
		DutchAuctionParam: &dutch, IsEnglishActivated: true, EnglishAuctionParam: &english, KeeeperIncentive: c16D("0.1")})
	in.app.NewliqKeeper.SetLiquidationWhiteListing(in.ctx, liqv2types.LiquidationWhiteListing{AppId: c16AppLend, Initiator: true, IsDutchActivated: true,
		DutchAuctionParam: &dutch, IsEnglishActivated: false, KeeeperIncentive: c16D("0.1")})
	in.app.NewaucKeeper.SetAuctionParams(in.ctx, aucv2types.AuctionParams{AuctionDurationSeconds: 3600, Step: c16D("0.1"), WithdrawalFee: c16D("0.0"),
		ClosingFee: c16D("0.0"), MinUsdValueLeft: 100000, BidFactor: c16D("0.1"), LiquidationPenalty: c16D("0.1"), AuctionBonus: c16D("0.0")})
	w.must(in.app.CollectorKeeper.WasmSetCollectorLookupTable(in.ctx, &bindings.MsgSetCollectorLookupTable{
		AppID: c16AppHarbor, CollectorAssetID: 2, SecondaryAssetID: 3, SurplusThreshold: sdk.NewInt(10_000_000), DebtThreshold: sdk.NewInt(5_000_000),
		LockerSavingRate: c16D("0.1"), LotSize: sdk.NewInt(2_000_000), BidFactor: c16D("0.01"), DebtLotSize: sdk.NewInt(2_000_000),
	}), "collector lookup")
	gov := 0
	for _, asset := range []uint64{3, 2} {
		if !in.tx(gov, "tokenmint.mint", &tokenminttypes.MsgMintNewTokensRequest{From: w.addr(gov).String(), AppId: c16AppHarbor, AssetId: asset}) {
			in.t.Fatalf("c16: tokenmint of asset %d failed", asset)
		}
	}
	_, err := in.app.LockerKeeper.AddWhiteListedAsset(in.ctx, lockertypes.NewMsgAddWhiteListedAssetRequest(w.addr(gov).String(), c16AppHarbor, 2))
	w.must(err, "locker whitelist") // governance (wasm binding) path
	w.must(in.app.Rewardskeeper.WhitelistAppIDVault(in.ctx, c16AppHarbor), "rewards: whitelist app vault interest")
	w.must(in.app.Rewardskeeper.WhitelistAssetForInternalRewards(in.ctx, c16AppHarbor, 2), "rewards: whitelist locker asset")
	// external rewards for lockers and vaults (rewards BeginBlocker: DistributeExtRewardLocker / …Vault)
	in.tx(gov, "rewards.ext-locker", rewardstypes.NewMsgActivateExternalRewardsLockers(c16AppHarbor, 2, sdk.NewCoin("uharbor", sdk.NewInt(50_000_000)), 5, 1, w.addr(gov)))
}

func (w *c16Workload) fixtureLend() {
	in := w.in
	lk := in.app.LendKeeper
	z := c16D("0.0")
	aCMDX, aCMST, aATOM, aOSMO := w.assetID["ucmdx"], w.assetID["ucmst"], w.assetID["uatom"], w.assetID["uosmo"]
	cCMDX, cATOM, cCMST, cOSMO := w.assetID["uccmdx"], w.assetID["ucatom"], w.assetID["uccmst"], w.assetID["ucosmo"]
	rates := func(asset, cAsset uint64, uopt, base, s1, s2 string, stable bool, ltv, lt string) {
		sb, ss1, ss2 := z, z, z
		if stable {
			sb, ss1, ss2 = c16D("0.04"), c16D("0.04"), c16D("0.06")
		}
		w.must(lk.AddAssetRatesParams(in.ctx, lendtypes.AssetRatesParams{AssetID: asset, UOptimal: c16D(uopt), Base: c16D(base), Slope1: c16D(s1), Slope2: c16D(s2),
			EnableStableBorrow: stable, StableBase: sb, StableSlope1: ss1, StableSlope2: ss2, Ltv: c16D(ltv), LiquidationThreshold: c16D(lt),
			LiquidationPenalty: c16D("0.05"), LiquidationBonus: c16D("0.05"), ReserveFactor: c16D("0.2"), CAssetID: cAsset}), "asset rates")
	}
	rates(aCMST, cCMST, "0.8", "0.002", "0.06", "0.6", true, "0.8", "0.85")
	rates(aATOM, cATOM, "0.75", "0.002", "0.07", "1.25", false, "0.7", "0.75")
	// (the rates of CMDX and OSMO are added by AddAssetRatesPoolPairs below)
	dATOM := &lendtypes.AssetDataPoolMapping{AssetID: aATOM, AssetTransitType: 3, SupplyCap: sdk.NewDec(5000000000000000000)}
	dCMDX := &lendtypes.AssetDataPoolMapping{AssetID: aCMDX, AssetTransitType: 1, SupplyCap: sdk.NewDec(1000000000000000000)}
	dCMST := &lendtypes.AssetDataPoolMapping{AssetID: aCMST, AssetTransitType: 2, SupplyCap: sdk.NewDec(5000000000000000000)}
	dOSMO := &lendtypes.AssetDataPoolMapping{AssetID: aOSMO, AssetTransitType: 1, SupplyCap: sdk.NewDec(3000000000000000000)}
	pool := func(asset, cAsset uint64, module, cpool string, data []*lendtypes.AssetDataPoolMapping) {
		w.must(lk.AddAssetRatesPoolPairs(in.ctx, lendtypes.AssetRatesPoolPairs{AssetID: asset, UOptimal: c16D("0.5"), Base: c16D("0.002"), Slope1: c16D("0.08"), Slope2: c16D("2.0"),
			EnableStableBorrow: false, StableBase: z, StableSlope1: z, StableSlope2: z, Ltv: c16D("0.5"), LiquidationThreshold: c16D("0.55"),
			LiquidationPenalty: c16D("0.05"), LiquidationBonus: c16D("0.05"), ReserveFactor: c16D("0.2"), CAssetID: cAsset, ModuleName: module, CPoolName: cpool,
			AssetData: data, MinUsdValueLeft: 1_000_000}), "pool "+module)
	}
	pool(aCMDX, cCMDX, "cmdx", "CMDX-ATOM-CMST", []*lendtypes.AssetDataPoolMapping{dATOM, dCMDX, dCMST})
	pool(aOSMO, cOSMO, "osmo", "OSMO-ATOM-CMST", []*lendtypes.AssetDataPoolMapping{dOSMO, dATOM, dCMST})
	whale := 0
	fundMod := func(poolID, asset uint64, denom string, amt int64) {
		if !in.tx(whale, "lend.fund-module", lendtypes.NewMsgFundModuleAccounts(poolID, asset, w.addr(whale).String(), sdk.NewCoin(denom, sdk.NewInt(amt)))) {
			in.t.Fatalf("c16: lend fund module %d/%s failed", poolID, denom)
		}
	}
	fundMod(1, aATOM, "uatom", 10_000_000_000)
	fundMod(1, aCMDX, "ucmdx", 10_000_000_000)
	fundMod(1, aCMST, "ucmst", 10_000_000_000)
	fundMod(2, aATOM, "uatom", 10_000_000_000)
	fundMod(2, aOSMO, "uosmo", 10_000_000_000)
	fundMod(2, aCMST, "ucmst", 10_000_000_000)
	// liquidity of the lend pools themselves
	for _, x := range []struct {
		asset uint64
		denom string
		pool  uint64
	}{{aCMDX, "ucmdx", 1}, {aCMST, "ucmst", 1}, {aATOM, "uatom", 1}, {aOSMO, "uosmo", 2}, {aCMST, "ucmst", 2}} {
		in.tx(whale, "lend.lend", lendtypes.NewMsgLend(w.addr(whale).String(), x.asset, sdk.NewCoin(x.denom, sdk.NewInt(20_000_000_000)), x.pool, c16AppLend))
	}
	in.tx(whale, "rewards.ext-lend", &rewardstypes.ActivateExternalRewardsLend{AppMappingId: c16AppLend, CPoolId: 1, AssetId: []uint64{aCMDX, aCMST}, CSwapAppId: c16AppSwap,
		CSwapMinLockAmount: 0, TotalRewards: sdk.NewCoin("uharbor", sdk.NewInt(50_000_000)), MasterPoolId: 2, DurationDays: 5, MinLockupTimeSeconds: 1, Depositor: w.addr(whale).String()})
}

// ---------------------------------------------------------------------------------------------------------------
// steps

func (w *c16Workload) oracleStep(b int) {
	// small random walk of the oracle prices (the band feed is an input of the chain)
	for _, d := range []string{"ucmdx", "uatom", "uosmo"} {
		id := w.assetID[d]
		p := w.price[id]
		delta := p / 100 * uint64(w.rng.Intn(5))
		if w.rng.Chance(50) && p > delta+1000 {
			p -= delta
		} else {
			p += delta
		}
		w.setPrice(id, p)
		w.setPrice(w.assetID["uc"+d[1:]], p)
	}
}

// tickPrice: mid * (1 + k/200), rounded down to the pair's tick grid
func (w *c16Workload) tickPrice(p c16Pair, k int) sdk.Dec {
	price := p.mid.Mul(sdk.NewDec(int64(200 + k))).QuoInt64(200)
	return amm.PriceToDownTick(price, 4)
}

func (w *c16Workload) limitOrder(who int, p c16Pair, buy bool, price sdk.Dec, amt sdk.Int, life time.Duration) bool {
	params, err := w.in.app.LiquidityKeeper.GetGenericParams(w.in.ctx, c16AppSwap)
	w.must(err, "params")
	var msg *liquiditytypes.MsgLimitOrder
	if buy {
		offer := amm.OfferCoinAmount(amm.Buy, price, amt)
		offer = offer.Add(sdk.NewDecFromInt(offer).Mul(params.SwapFeeRate).Ceil().TruncateInt())
		msg = liquiditytypes.NewMsgLimitOrder(c16AppSwap, w.addr(who), p.id, liquiditytypes.OrderDirectionBuy, sdk.NewCoin(p.quote, offer), p.base, price, amt, life)
	} else {
		offer := amt.Add(sdk.NewDecFromInt(amt).Mul(params.SwapFeeRate).Ceil().TruncateInt())
		msg = liquiditytypes.NewMsgLimitOrder(c16AppSwap, w.addr(who), p.id, liquiditytypes.OrderDirectionSell, sdk.NewCoin(p.base, offer), p.quote, price, amt, life)
	}
	return w.in.tx(who, "liquidity.limit-order", msg)
}

func (w *c16Workload) liquidityStep(b int) {
	in := w.in
	lk := in.app.LiquidityKeeper
	// several users at EQUAL prices on both sides, crossing: the batch matches them pro rata
	// (DistributeOrderAmountToOrders with several orders in one group)
	nPairs := len(w.pairs)
	for pi := 0; pi < nPairs; pi++ {
		p := w.pairs[pi]
		if pair, ok := lk.GetPair(in.ctx, c16AppSwap, p.id); ok && pair.LastPrice != nil {
			p.mid = *pair.LastPrice
		}
		groups := 1 + w.rng.Intn(3)
		for g := 0; g < groups; g++ {
			kBuy := w.rng.Range(-2, 6)
			kSell := w.rng.Range(-6, 2)
			buyPrice, sellPrice := w.tickPrice(p, kBuy), w.tickPrice(p, kSell)
			nb, ns := 2+w.rng.Intn(4), 2+w.rng.Intn(4)
			for i := 0; i < nb; i++ {
				w.limitOrder(w.user(), p, true, buyPrice, sdk.NewInt(int64(10_000+w.rng.Intn(5)*3_333+w.rng.Intn(7))), time.Duration(w.rng.Intn(3))*30*time.Second)
			}
			for i := 0; i < ns; i++ {
				w.limitOrder(w.user(), p, false, sellPrice, sdk.NewInt(int64(10_000+w.rng.Intn(5)*3_333+w.rng.Intn(7))), time.Duration(w.rng.Intn(3))*30*time.Second)
			}
		}
		// a market order
		if w.rng.Chance(50) {
			who := w.user()
			amt := sdk.NewInt(int64(5_000 + w.rng.Intn(20_000)))
			pair, ok := lk.GetPair(in.ctx, c16AppSwap, p.id)
			if ok && pair.LastPrice != nil {
				params, _ := lk.GetGenericParams(in.ctx, c16AppSwap)
				if w.rng.Chance(50) {
					maxPrice := pair.LastPrice.Mul(sdk.OneDec().Add(params.MaxPriceLimitRatio))
					offer := amm.OfferCoinAmount(amm.Buy, maxPrice, amt)
					offer = offer.Add(sdk.NewDecFromInt(offer).Mul(params.SwapFeeRate).Ceil().TruncateInt())
					in.tx(who, "liquidity.market-order", liquiditytypes.NewMsgMarketOrder(c16AppSwap, w.addr(who), p.id, liquiditytypes.OrderDirectionBuy, sdk.NewCoin(p.quote, offer), p.base, amt, 0))
				} else {
					offer := amt.Add(sdk.NewDecFromInt(amt).Mul(params.SwapFeeRate).Ceil().TruncateInt())
					in.tx(who, "liquidity.market-order", liquiditytypes.NewMsgMarketOrder(c16AppSwap, w.addr(who), p.id, liquiditytypes.OrderDirectionSell, sdk.NewCoin(p.base, offer), p.quote, amt, 0))
				}
			}
		}
		// market-making order ladder
		if w.rng.Chance(25) {
			who := w.user()
			in.tx(who, "liquidity.mm-order", liquiditytypes.NewMsgMMOrder(c16AppSwap, w.addr(who), p.id,
				w.tickPrice(p, 12), w.tickPrice(p, 3), sdk.NewInt(60_000), w.tickPrice(p, -3), w.tickPrice(p, -12), sdk.NewInt(60_000), 60*time.Second))
		}
		if w.rng.Chance(15) {
			who := w.user()
			in.tx(who, "liquidity.cancel-mm-order", liquiditytypes.NewMsgCancelMMOrder(c16AppSwap, w.addr(who), p.id))
		}
		if w.rng.Chance(15) {
			who := w.user()
			in.tx(who, "liquidity.cancel-all", liquiditytypes.NewMsgCancelAllOrders(c16AppSwap, w.addr(who), []uint64{p.id}))
		}
		// deposits / withdrawals / farming on this pair's pools
		for _, poolID := range p.pools {
			pool, ok := lk.GetPool(in.ctx, c16AppSwap, poolID)
			if !ok {
				continue
			}
			who := w.user()
			switch w.rng.Intn(6) {
			case 0:
				x := int64(1_000_000 + w.rng.Intn(5_000_000))
				in.tx(who, "liquidity.deposit", liquiditytypes.NewMsgDeposit(c16AppSwap, w.addr(who), poolID,
					sdk.NewCoins(sdk.NewCoin(p.base, sdk.NewInt(x)), sdk.NewCoin(p.quote, p.mid.MulInt64(x).TruncateInt()))))
			case 1:
				x := int64(1_000_000 + w.rng.Intn(5_000_000))
				in.tx(who, "liquidity.deposit-and-farm", liquiditytypes.NewMsgDepositAndFarm(c16AppSwap, w.addr(who), poolID,
					sdk.NewCoins(sdk.NewCoin(p.base, sdk.NewInt(x)), sdk.NewCoin(p.quote, p.mid.MulInt64(x).TruncateInt()))))
			case 2:
				if bal := w.bal(who, pool.PoolCoinDenom); bal.IsPositive() {
					in.tx(who, "liquidity.withdraw", liquiditytypes.NewMsgWithdraw(c16AppSwap, w.addr(who), poolID, sdk.NewCoin(pool.PoolCoinDenom, bal.QuoRaw(3).AddRaw(1))))
				}
			case 3:
				if bal := w.bal(who, pool.PoolCoinDenom); bal.IsPositive() {
					in.tx(who, "liquidity.farm", liquiditytypes.NewMsgFarm(c16AppSwap, poolID, w.addr(who), sdk.NewCoin(pool.PoolCoinDenom, bal.QuoRaw(2).AddRaw(1))))
				}
			case 4:
				if af, ok := lk.GetActiveFarmer(in.ctx, c16AppSwap, poolID, w.addr(who)); ok && af.FarmedPoolCoin.Amount.IsPositive() {
					in.tx(who, "liquidity.unfarm", liquiditytypes.NewMsgUnfarm(c16AppSwap, poolID, w.addr(who), sdk.NewCoin(pool.PoolCoinDenom, af.FarmedPoolCoin.Amount.QuoRaw(2).AddRaw(1))))
				}
			}
		}
		w.pairs[pi] = p
	}
	// an external liquidity gauge now and then
	if b%7 == 3 {
		who := w.user()
		p := w.pairs[w.rng.Intn(len(w.pairs))]
		poolID := p.pools[w.rng.Intn(len(p.pools))]
		dur := []time.Duration{12 * time.Hour, 24 * time.Hour, 36 * time.Hour, 24 * time.Hour}[(b/7)%4]
		msg := rewardstypes.NewMsgCreateGauge(c16AppSwap, w.addr(who), in.now.Add(10*time.Second), rewardstypes.LiquidityGaugeTypeID, dur,
			sdk.NewCoin("uharbor", sdk.NewInt(int64(30_000_000+w.rng.Intn(1000)))), uint64(2+w.rng.Intn(3)))
		child := []uint64{}
		master := false
		if len(p.pools) > 1 && w.rng.Chance(50) {
			master = true
			for _, c := range p.pools {
				if c != poolID {
					child = append(child, c)
				}
			}
		}
		msg.Kind = &rewardstypes.MsgCreateGauge_LiquidityMetaData{LiquidityMetaData: &rewardstypes.LiquidtyGaugeMetaData{PoolId: poolID, IsMasterPool: master, ChildPoolIds: child}}
		in.tx(who, "rewards.create-gauge", msg)
	}
}

// twinPositions: pairs of positions that agree in all but one parameter, opened in the same block and interleaved with
// the other operations (vaults: equal collateral, different debt; lockers: equal deposit, different owner; lend: equal
// collateral, different borrowed amount; limit orders: equal price and amount on two pairs).
func (w *c16Workload) twinPositions() {
	in := w.in
	in.tx(1, "vault.create", vaulttypes.NewMsgCreateRequest(w.addr(1), c16AppHarbor, 1, sdk.NewInt(50_000_000), sdk.NewInt(40_000_000)))
	in.tx(3, "locker.create", lockertypes.NewMsgCreateLockerRequest(w.addr(3).String(), sdk.NewInt(7_000_000), 2, c16AppHarbor))
	in.tx(2, "vault.create", vaulttypes.NewMsgCreateRequest(w.addr(2), c16AppHarbor, 1, sdk.NewInt(50_000_000), sdk.NewInt(40_000_001)))
	in.tx(4, "locker.create", lockertypes.NewMsgCreateLockerRequest(w.addr(4).String(), sdk.NewInt(7_000_000), 2, c16AppHarbor))
	aATOM, aCMDX := w.assetID["uatom"], w.assetID["ucmdx"]
	for i, who := range []int{5, 6} {
		from := w.addr(who).String()
		in.tx(who, "lend.lend", lendtypes.NewMsgLend(from, aATOM, sdk.NewCoin("uatom", sdk.NewInt(100_000_000)), 1, c16AppLend))
		if lendID, ok := in.app.LendKeeper.GetLendIDForAssetIDPoolID(in.ctx, from, aATOM, 1); ok {
			if pairID := w.lendPair(aATOM, aCMDX, 1); pairID != 0 {
				in.tx(who, "lend.borrow", lendtypes.NewMsgBorrow(from, lendID, pairID, false, sdk.NewCoin("ucatom", sdk.NewInt(20_000_000)), sdk.NewCoin("ucmdx", sdk.NewInt(int64(30_000_000+i)))))
			}
		}
	}
	for _, pi := range []int{0, 2} {
		p := w.pairs[pi]
		w.limitOrder(7, p, true, w.tickPrice(p, 4), sdk.NewInt(25_000_000), 30*time.Second)
		w.limitOrder(7, p, false, w.tickPrice(p, -4), sdk.NewInt(25_000_000), 30*time.Second)
	}
	in.stats["twins"]++
}

func (w *c16Workload) vaultLockerStep(b int) {
	in := w.in
	vk := in.app.VaultKeeper
	if b == 3 || b == 30 {
		// needs the app's vault mapping, i.e. at least one vault (twinPositions, block 3) — and NO vault of another extended
		// pair of the app yet (x/rewards/keeper/keeper.go:184-188 rejects the request as soon as the app has a vault of any other
		// pair: the stable-mint vault of breadthStep is opened later in block 3; the request of block 30 is rejected)
		in.tx(0, "rewards.ext-vault", rewardstypes.NewMsgActivateExternalRewardsVault(c16AppHarbor, 1, sdk.NewCoin("uharbor", sdk.NewInt(50_000_000)), 5, 1, w.addr(0)))
	}
	n := 1 + w.rng.Intn(3)
	for i := 0; i < n; i++ {
		who := w.user()
		m, has := vk.GetUserAppExtendedPairMappingData(in.ctx, w.addr(who).String(), c16AppHarbor, 1)
		cmdx := w.price[1]
		if !has {
			// open a vault; collateral ratio between 1.5 (the minimum) and 2.5
			amtIn := int64(20_000_000 + w.rng.Intn(80_000_000))
			cr := int64(150 + w.rng.Intn(100))
			amtOut := amtIn * int64(cmdx) / 1_000_000 * 100 / cr
			in.tx(who, "vault.create", vaulttypes.NewMsgCreateRequest(w.addr(who), c16AppHarbor, 1, sdk.NewInt(amtIn), sdk.NewInt(amtOut)))
			continue
		}
		v, ok := vk.GetVault(in.ctx, m.VaultId)
		if !ok {
			continue
		}
		switch w.rng.Intn(6) {
		case 0:
			in.tx(who, "vault.deposit", vaulttypes.NewMsgDepositRequest(w.addr(who), c16AppHarbor, 1, v.Id, sdk.NewInt(int64(1_000_000+w.rng.Intn(5_000_000)))))
		case 1:
			in.tx(who, "vault.withdraw", vaulttypes.NewMsgWithdrawRequest(w.addr(who), c16AppHarbor, 1, v.Id, sdk.NewInt(int64(100_000+w.rng.Intn(3_000_000)))))
		case 2:
			in.tx(who, "vault.draw", vaulttypes.NewMsgDrawRequest(w.addr(who), c16AppHarbor, 1, v.Id, sdk.NewInt(int64(100_000+w.rng.Intn(3_000_000)))))
		case 3:
			in.tx(who, "vault.repay", vaulttypes.NewMsgRepayRequest(w.addr(who), c16AppHarbor, 1, v.Id, sdk.NewInt(int64(100_000+w.rng.Intn(3_000_000)))))
		case 4:
			if w.rng.Chance(30) {
				in.tx(who, "vault.close", vaulttypes.NewMsgLiquidateRequest(w.addr(who), c16AppHarbor, 1, v.Id))
			} else {
				in.tx(who, "vault.deposit-and-draw", vaulttypes.NewMsgDepositAndDrawRequest(w.addr(who), c16AppHarbor, 1, v.Id, sdk.NewInt(int64(2_000_000+w.rng.Intn(5_000_000)))))
			}
		default:
			in.tx(who, "vault.interest-calc", vaulttypes.NewMsgVaultInterestCalcRequest(w.addr(who), c16AppHarbor, v.Id))
		}
	}
	// lockers (CMST, app harbor)
	lk := in.app.LockerKeeper
	for i := 0; i < 1+w.rng.Intn(2); i++ {
		who := w.user()
		m, has := lk.GetUserLockerAssetMapping(in.ctx, w.addr(who).String(), c16AppHarbor, 2)
		if !has || m.LockerId == 0 {
			in.tx(who, "locker.create", lockertypes.NewMsgCreateLockerRequest(w.addr(who).String(), sdk.NewInt(int64(5_000_000+w.rng.Intn(50_000_000))), 2, c16AppHarbor))
			continue
		}
		switch w.rng.Intn(4) {
		case 0:
			in.tx(who, "locker.deposit", lockertypes.NewMsgDepositAssetRequest(w.addr(who).String(), m.LockerId, sdk.NewInt(int64(1_000_000+w.rng.Intn(9_000_000))), 2, c16AppHarbor))
		case 1:
			in.tx(who, "locker.withdraw", lockertypes.NewMsgWithdrawAssetRequest(w.addr(who).String(), m.LockerId, sdk.NewInt(int64(500_000+w.rng.Intn(4_000_000))), 2, c16AppHarbor))
		case 2:
			in.tx(who, "locker.reward-calc", lockertypes.NewMsgLockerRewardCalcRequest(w.addr(who).String(), c16AppHarbor, m.LockerId))
		default:
			if w.rng.Chance(20) {
				in.tx(who, "locker.close", lockertypes.NewMsgCloseLockerRequest(w.addr(who).String(), c16AppHarbor, 2, m.LockerId))
			}
		}
	}
}

func (w *c16Workload) lendStep(b int) {
	in := w.in
	lk := in.app.LendKeeper
	aCMDX, aCMST, aATOM := w.assetID["ucmdx"], w.assetID["ucmst"], w.assetID["uatom"]
	for i := 0; i < 1+w.rng.Intn(3); i++ {
		who := 1 + w.rng.Intn(c16Users-1)
		from := w.addr(who).String()
		lendID, has := lk.GetLendIDForAssetIDPoolID(in.ctx, from, aATOM, 1)
		if !has {
			in.tx(who, "lend.lend", lendtypes.NewMsgLend(from, aATOM, sdk.NewCoin("uatom", sdk.NewInt(int64(50_000_000+w.rng.Intn(200_000_000)))), 1, c16AppLend))
			continue
		}
		// the user's borrow positions
		var borrowID uint64
		for _, m := range lk.GetUserTotalMappingData(in.ctx, from) {
			if m.LendId == lendID && len(m.BorrowId) > 0 {
				borrowID = m.BorrowId[0]
			}
		}
		switch w.rng.Intn(8) {
		case 0:
			in.tx(who, "lend.deposit", lendtypes.NewMsgDeposit(from, lendID, sdk.NewCoin("uatom", sdk.NewInt(int64(1_000_000+w.rng.Intn(20_000_000))))))
		case 1:
			in.tx(who, "lend.withdraw", lendtypes.NewMsgWithdraw(from, lendID, sdk.NewCoin("uatom", sdk.NewInt(int64(1_000_000+w.rng.Intn(10_000_000))))))
		case 2, 3:
			if borrowID == 0 {
				// ATOM collateral (cATOM), borrow CMDX (pair ids are assigned by AddAssetRatesPoolPairs: find one ATOM->CMDX / ATOM->CMST)
				out, denom := aCMDX, "ucmdx"
				if w.rng.Chance(50) {
					out, denom = aCMST, "ucmst"
				}
				pairID := w.lendPair(aATOM, out, 1)
				if pairID != 0 {
					amtIn := int64(10_000_000 + w.rng.Intn(30_000_000))
					// LTV 0.7 of the collateral value, borrow 40-95 % of that
					val := amtIn * int64(w.price[aATOM]) / int64(w.price[out])
					amtOut := val * 7 / 10 * int64(40+w.rng.Intn(56)) / 100
					in.tx(who, "lend.borrow", lendtypes.NewMsgBorrow(from, lendID, pairID, false, sdk.NewCoin("ucatom", sdk.NewInt(amtIn)), sdk.NewCoin(denom, sdk.NewInt(amtOut))))
				}
			} else if bw, ok := lk.GetBorrow(in.ctx, borrowID); ok {
				in.tx(who, "lend.draw", lendtypes.NewMsgDraw(from, borrowID, sdk.NewCoin(bw.AmountOut.Denom, sdk.NewInt(int64(100_000+w.rng.Intn(2_000_000))))))
			}
		case 4:
			if bw, ok := lk.GetBorrow(in.ctx, borrowID); ok && borrowID != 0 {
				in.tx(who, "lend.repay", lendtypes.NewMsgRepay(from, borrowID, sdk.NewCoin(bw.AmountOut.Denom, sdk.NewInt(int64(100_000+w.rng.Intn(3_000_000))))))
			}
		case 5:
			if borrowID != 0 {
				in.tx(who, "lend.deposit-borrow", lendtypes.NewMsgDepositBorrow(from, borrowID, sdk.NewCoin("ucatom", sdk.NewInt(int64(1_000_000+w.rng.Intn(5_000_000))))))
			}
		case 6:
			in.tx(who, "lend.calc-interest", lendtypes.NewMsgCalculateInterestAndRewards(from))
		default:
			if borrowID != 0 && w.rng.Chance(20) {
				in.tx(who, "lend.close-borrow", lendtypes.NewMsgCloseBorrow(from, borrowID))
			}
		}
	}
}

// lendPair finds the lend pair (assetIn -> assetOut) of pool `poolID`.
func (w *c16Workload) lendPair(assetIn, assetOut, poolID uint64) uint64 {
	for _, p := range w.in.app.LendKeeper.GetLendPairs(w.in.ctx) {
		if p.AssetIn == assetIn && p.AssetOut == assetOut && p.AssetOutPoolID == poolID {
			return p.Id
		}
	}
	return 0
}

// liquidationAuctionStep: every now and then the CMDX price collapses for a few blocks (vaults near the minimum
// collateral ratio are liquidated by the liquidation BeginBlocker and dutch auctions start), users bid.
func (w *c16Workload) liquidationAuctionStep(b int) {
	in := w.in
	if b%11 == 5 {
		p := w.price[1]
		w.setPrice(1, p*6/10)
		w.setPrice(w.assetID["uccmdx"], p*6/10)
		in.stats["oracle:crash"]++
	}
	if b%11 == 9 {
		w.setPrice(1, 2_000_000)
		w.setPrice(w.assetID["uccmdx"], 2_000_000)
	}
	auctions := in.app.NewaucKeeper.GetAuctions(in.ctx)
	in.stats["probe:v2-auctions-open"] += len(auctions)
	for _, a := range auctions {
		if !w.rng.Chance(50) {
			continue
		}
		who := w.user()
		// a market bid pays debt tokens; bid a part (or all) of the outstanding debt
		amt := a.DebtToken.Amount.QuoRaw(int64(1 + w.rng.Intn(3)))
		if amt.IsPositive() {
			in.tx(who, "auctionsV2.market-bid", aucv2types.NewMsgPlaceMarketBid(w.addr(who).String(), a.AuctionId, sdk.NewCoin(a.DebtToken.Denom, amt)))
		}
	}
}

var _ = fmt.Sprint
var _ = os.Getenv
var _ = bindings.MsgAddExtendedPairsVault{}
var _ = auctiontypes.AuctionParams{}
var _ = lendtypes.MsgLend{}
var _ = lockertypes.MsgCreateLockerRequest{}
var _ = vaulttypes.MsgCreateRequest{}
