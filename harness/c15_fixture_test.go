//go:build verif

package harness

// Fixtures for C15: reachable states with positions, built the way the repository's own keeper tests build
// them (x/liquidation, x/auction, x/auctionsV2, x/liquidationsV2, x/liquidity keeper tests). Governance /
// wasm-binding configuration goes through the keepers' Add…/Wasm… entry points, user actions through the
// message router (ValidateBasic, handler on a cache context written back only on success), oracle prices
// through MarketKeeper.SetTwa (the band feed is an input of the chain).

import (
	"fmt"
	"testing"
	"time"

	sdk "github.com/cosmos/cosmos-sdk/types"

	tmproto "github.com/cometbft/cometbft/proto/tendermint/types"

	chain "github.com/comdex-official/comdex/app"
	"github.com/comdex-official/comdex/app/wasm/bindings"
	assettypes "github.com/comdex-official/comdex/x/asset/types"
	auctiontypes "github.com/comdex-official/comdex/x/auction/types"
	aucv2types "github.com/comdex-official/comdex/x/auctionsV2/types"
	esmtypes "github.com/comdex-official/comdex/x/esm/types"
	lendtypes "github.com/comdex-official/comdex/x/lend/types"
	liqv2types "github.com/comdex-official/comdex/x/liquidationsV2/types"
	liquiditytypes "github.com/comdex-official/comdex/x/liquidity/types"
	rewardstypes "github.com/comdex-official/comdex/x/rewards/types"
	markettypes "github.com/comdex-official/comdex/x/market/types"
	tokenminttypes "github.com/comdex-official/comdex/x/tokenmint/types"
	vaulttypes "github.com/comdex-official/comdex/x/vault/types"
)

type c15World struct {
	t      *testing.T
	app    *chain.App
	ctx    sdk.Context // live state (a branch of the app's base context)
	tr     *Trace
	rng    *Rng
	addr   []sdk.AccAddress
	stores []string
	panics []string
}

func c15Addr(i int) sdk.AccAddress {
	b := make([]byte, 20)
	b[0] = 0xC1
	b[1] = 0x5A
	b[18] = byte(i >> 8)
	b[19] = byte(i)
	return sdk.AccAddress(b)
}

func c15NewWorld(t *testing.T, tr *Trace, users int) *c15World {
	app := chain.Setup(t, false)
	base := app.BaseApp.NewContext(false, tmproto.Header{Height: 10, Time: time.Unix(1_700_000_000, 0).UTC()})
	ctx, _ := base.CacheContext()
	w := &c15World{t: t, app: app, ctx: ctx, tr: tr, rng: NewRng(seed()), stores: c15StoreNames(app)}
	for i := 0; i < users; i++ {
		w.addr = append(w.addr, c15Addr(i+1))
	}
	return w
}

func (w *c15World) must(err error, what string) {
	if err != nil {
		w.t.Fatalf("c15 fixture: %s: %v", what, err)
	}
}

func (w *c15World) fund(a sdk.AccAddress, denom string, amt int64) {
	c := sdk.NewCoins(sdk.NewCoin(denom, sdk.NewInt(amt)))
	w.must(w.app.BankKeeper.MintCoins(w.ctx, tokenminttypes.ModuleName, c), "mint")
	w.must(w.app.BankKeeper.SendCoinsFromModuleToAccount(w.ctx, tokenminttypes.ModuleName, a, c), "send")
}

// deliver sends a user message the way the chain does.
func (w *c15World) deliver(msg sdk.Msg) error {
	if err := msg.ValidateBasic(); err != nil {
		return err
	}
	h := w.app.MsgServiceRouter().Handler(msg)
	if h == nil {
		return fmt.Errorf("no handler for %T", msg)
	}
	cc, write := w.ctx.CacheContext()
	_, err := h(cc, msg)
	if err != nil {
		return err
	}
	write()
	return nil
}

func (w *c15World) setPrice(assetID, price uint64, active bool) {
	w.app.MarketKeeper.SetTwa(w.ctx, markettypes.TimeWeightedAverage{
		AssetID: assetID, ScriptID: 12, Twa: price, CurrentIndex: 0, IsPriceActive: active, PriceValue: []uint64{price},
	})
}

func (w *c15World) advance(seconds int64, blocks int64) {
	w.ctx = w.ctx.WithBlockTime(w.ctx.BlockTime().Add(time.Duration(seconds) * time.Second)).WithBlockHeight(w.ctx.BlockHeight() + blocks)
}

// ---------------------------------------------------------------------------------------------------------------
// generation 1: app 1 (harbor-like): CMDX(1) collateral, CMST(2) debt, HARBOR(3) governance token

func (w *c15World) setupV1(nVaults int) {
	ak := w.app.AssetKeeper
	for _, a := range []assettypes.Asset{
		{Name: "CMDX", Denom: "ucmdx", Decimals: sdk.NewInt(1000000), IsOnChain: true, IsCdpMintable: true, IsOraclePriceRequired: true},
		{Name: "CMST", Denom: "ucmst", Decimals: sdk.NewInt(1000000), IsOnChain: true, IsCdpMintable: true, IsOraclePriceRequired: true},
		{Name: "HARBOR", Denom: "uharbor", Decimals: sdk.NewInt(1000000), IsOnChain: true, IsCdpMintable: true},
	} {
		w.must(ak.AddAssetRecords(w.ctx, a), "asset "+a.Name)
	}
	gov := w.addr[0].String()
	w.must(ak.AddAppRecords(w.ctx, assettypes.AppData{
		Name: "harbor", ShortName: "hbr", MinGovDeposit: sdk.NewInt(10000000), GovTimeInSeconds: 900,
		GenesisToken: []assettypes.MintGenesisToken{
			{AssetId: 3, GenesisSupply: sdk.NewInt(1000000000000), IsGovToken: true, Recipient: gov},
			{AssetId: 2, GenesisSupply: sdk.NewInt(1000000000000), IsGovToken: false, Recipient: gov},
		},
	}), "app harbor")
	w.must(ak.AddPairsRecords(w.ctx, assettypes.Pair{AssetIn: 1, AssetOut: 2}), "pair")
	w.must(ak.WasmAddExtendedPairsVaultRecords(w.ctx, &bindings.MsgAddExtendedPairsVault{
		AppID: 1, PairID: 1, StabilityFee: sdk.MustNewDecFromStr("0.01"), ClosingFee: sdk.MustNewDecFromStr("0"),
		LiquidationPenalty: sdk.MustNewDecFromStr("0.12"), DrawDownFee: sdk.MustNewDecFromStr("0.01"), IsVaultActive: true,
		DebtCeiling: sdk.NewInt(1000000000000), DebtFloor: sdk.NewInt(1000000), IsStableMintVault: false,
		MinCr: sdk.MustNewDecFromStr("1.5"), PairName: "CMDX-B", AssetOutOraclePrice: true, AssetOutPrice: 1000000, MinUsdValueLeft: 1000000,
	}), "ext pair")
	w.must(w.app.LiquidationKeeper.WasmWhitelistAppIDLiquidation(w.ctx, 1), "whitelist v1")
	w.app.AuctionKeeper.SetAuctionParams(w.ctx, auctiontypes.AuctionParams{
		AppId: 1, AuctionDurationSeconds: 300, Buffer: sdk.MustNewDecFromStr("1.2"), Cusp: sdk.MustNewDecFromStr("0.6"),
		Step: sdk.NewIntFromUint64(1), PriceFunctionType: 1, SurplusId: 1, DebtId: 2, DutchId: 3, BidDurationSeconds: 300,
	})
	w.setPrice(1, 2000000, true)
	w.setPrice(2, 1000000, true)
	// genesis mint of the app's tokens (tokenmint), needed before vaults can mint CMST
	for _, asset := range []uint64{3, 2} {
		w.must(w.deliver(&tokenminttypes.MsgMintNewTokensRequest{From: gov, AppId: 1, AssetId: asset}), "tokenmint")
	}
	w.setupCollector(1, 2, 3, true)
	for i := 0; i < nVaults; i++ {
		u := w.addr[1+i]
		w.fund(u, "ucmdx", 1000000000)
		w.must(w.deliver(&vaulttypes.MsgCreateRequest{From: u.String(), AppId: 1, ExtendedPairVaultId: 1,
			AmountIn: sdk.NewInt(int64(10000000 + 1000*i)), AmountOut: sdk.NewInt(10000000)}), "vault create")
	}
}

// collector lookup table and auction control for (app, asset): surplus and debt auctions can be kicked off
func (w *c15World) setupCollector(appID, asset, secondary uint64, debt bool) {
	w.must(w.app.CollectorKeeper.WasmSetCollectorLookupTable(w.ctx, &bindings.MsgSetCollectorLookupTable{AppID: appID, CollectorAssetID: asset,
		SecondaryAssetID: secondary, SurplusThreshold: sdk.NewInt(10000000), DebtThreshold: sdk.NewInt(5000000), LockerSavingRate: c15Dec("0.1"),
		LotSize: sdk.NewInt(200000), BidFactor: c15Dec("0.01"), DebtLotSize: sdk.NewInt(2000000)}), "collector lookup")
	w.must(w.app.CollectorKeeper.WasmSetAuctionMappingForApp(w.ctx, &bindings.MsgSetAuctionMappingForApp{AppID: appID, AssetIDs: asset,
		IsSurplusAuctions: !debt, IsDebtAuctions: debt, IsDistributor: false, AssetOutOraclePrices: false, AssetOutPrices: 1000000}), "auction mapping")
}

// external vault rewards for (app, extended pair): paid out daily by the incentive hook
func (w *c15World) activateVaultRewards(appID, extPair uint64, from sdk.AccAddress, denom string) {
	w.fund(from, denom, 1000000000)
	w.must(w.deliver(rewardstypes.NewMsgActivateExternalRewardsVault(appID, extPair, sdk.NewCoin(denom, sdk.NewInt(700000000)), 7, 1, from)), "ext vault rewards")
}

// triggerESM: the governance-token holders deposit the target and execute the emergency shutdown of app 1.
func (w *c15World) triggerESM(appID uint64) {
	w.must(w.app.EsmKeeper.AddESMTriggerParamsForApp(w.ctx, &bindings.MsgAddESMTriggerParams{
		AppID: appID, TargetValue: sdk.NewCoin("uharbor", sdk.NewInt(1000000)), CoolOffPeriod: 3600, AssetID: []uint64{2}, Rates: []uint64{1000000},
	}), "esm params")
	gov := w.addr[0].String()
	w.must(w.deliver(&esmtypes.MsgDepositESM{AppId: appID, Depositor: gov, Amount: sdk.NewCoin("uharbor", sdk.NewInt(1000000))}), "esm deposit")
	w.must(w.deliver(&esmtypes.MsgExecuteESM{AppId: appID, Depositor: gov}), "esm execute")
}

// ---------------------------------------------------------------------------------------------------------------
// generation 2 (x/liquidationsV2 + x/auctionsV2) with lend positions — the fixture of
// x/auctionsV2/keeper/msg_server_test.go AddAppAssets/CreateVault, users replaced by harness accounts.
// assets 1..4 ASSETONE..FOUR, 5..8 their cTokens; apps 1 cswap, 2 harbor (vaults: pair 2→3), 3 commodo (lend)

func c15Dec(s string) sdk.Dec { return sdk.MustNewDecFromStr(s) }

func (w *c15World) newAsset(name, denom string, twa uint64) uint64 {
	w.must(w.app.AssetKeeper.AddAssetRecords(w.ctx, assettypes.Asset{Name: name, Denom: denom, Decimals: sdk.NewInt(1000000),
		IsOnChain: true, IsOraclePriceRequired: true, IsCdpMintable: true}), "asset "+name)
	for _, a := range w.app.AssetKeeper.GetAssets(w.ctx) {
		if a.Denom == denom {
			w.setPrice(a.Id, twa, true)
			return a.Id
		}
	}
	w.t.Fatalf("asset %s not stored", name)
	return 0
}

func (w *c15World) newApp(name, short string) {
	w.must(w.app.AssetKeeper.AddAppRecords(w.ctx, assettypes.AppData{Name: name, ShortName: short, MinGovDeposit: sdk.NewInt(0)}), "app "+name)
}

func (w *c15World) ratesStats(assetID uint64, uopt, base, s1, s2 string, stable bool, sb, ss1, ss2, ltv, lt, lp, lb, rf string, cAsset uint64) {
	w.must(w.app.LendKeeper.AddAssetRatesParams(w.ctx, lendtypes.AssetRatesParams{AssetID: assetID, UOptimal: c15Dec(uopt), Base: c15Dec(base),
		Slope1: c15Dec(s1), Slope2: c15Dec(s2), EnableStableBorrow: stable, StableBase: c15Dec(sb), StableSlope1: c15Dec(ss1), StableSlope2: c15Dec(ss2),
		Ltv: c15Dec(ltv), LiquidationThreshold: c15Dec(lt), LiquidationPenalty: c15Dec(lp), LiquidationBonus: c15Dec(lb), ReserveFactor: c15Dec(rf), CAssetID: cAsset}), "rates stats")
}

func (w *c15World) ratesPool(assetID uint64, uopt, base, s1, s2, ltv, lt, lp, lb, rf string, cAsset uint64, module, cpool string, data []*lendtypes.AssetDataPoolMapping) {
	z := c15Dec("0.0")
	w.must(w.app.LendKeeper.AddAssetRatesPoolPairs(w.ctx, lendtypes.AssetRatesPoolPairs{AssetID: assetID, UOptimal: c15Dec(uopt), Base: c15Dec(base),
		Slope1: c15Dec(s1), Slope2: c15Dec(s2), EnableStableBorrow: false, StableBase: z, StableSlope1: z, StableSlope2: z,
		Ltv: c15Dec(ltv), LiquidationThreshold: c15Dec(lt), LiquidationPenalty: c15Dec(lp), LiquidationBonus: c15Dec(lb), ReserveFactor: c15Dec(rf),
		CAssetID: cAsset, ModuleName: module, CPoolName: cpool, AssetData: data, MinUsdValueLeft: 1000000}), "rates pool")
}

// setupV2: nVaults second-generation vaults (app 2) and nBorrows borrow positions (app 3).
func (w *c15World) setupV2(nVaults, nBorrows int) {
	a1 := w.newAsset("ASSETONE", "uasset1", 2000000)
	a2 := w.newAsset("ASSETTWO", "uasset2", 2000000)
	a3 := w.newAsset("ASSETTHREE", "uasset3", 1000000)
	a4 := w.newAsset("ASSETFOUR", "uasset4", 2000000)
	c1 := w.newAsset("CASSETONE", "ucasset1", 1000000)
	c2 := w.newAsset("CASSETTWO", "ucasset2", 2000000)
	c3 := w.newAsset("CASSETTHRE", "ucasset3", 2000000)
	c4 := w.newAsset("CASSETFOUR", "ucasset4", 2000000)
	d1 := &lendtypes.AssetDataPoolMapping{AssetID: a1, AssetTransitType: 3, SupplyCap: sdk.NewDec(5000000000000000000)}
	d2 := &lendtypes.AssetDataPoolMapping{AssetID: a2, AssetTransitType: 1, SupplyCap: sdk.NewDec(1000000000000000000)}
	d3 := &lendtypes.AssetDataPoolMapping{AssetID: a3, AssetTransitType: 2, SupplyCap: sdk.NewDec(5000000000000000000)}
	d4 := &lendtypes.AssetDataPoolMapping{AssetID: a4, AssetTransitType: 1, SupplyCap: sdk.NewDec(3000000000000000000)}
	w.ratesStats(a3, "0.8", "0.002", "0.06", "0.6", true, "0.04", "0.04", "0.06", "0.8", "0.85", "0.025", "0.025", "0.1", c3)
	w.ratesStats(a1, "0.75", "0.002", "0.07", "1.25", false, "0.0", "0.0", "0.0", "0.7", "0.75", "0.05", "0.05", "0.2", c1)
	w.ratesPool(a2, "0.5", "0.002", "0.08", "2.0", "0.5", "0.55", "0.05", "0.05", "0.2", c2, "cmdx", "CMDX-ATOM-CMST", []*lendtypes.AssetDataPoolMapping{d1, d2, d3})
	w.ratesPool(a4, "0.65", "0.002", "0.08", "1.5", "0.6", "0.65", "0.05", "0.05", "0.2", c4, "osmo", "OSMO-ATOM-CMST", []*lendtypes.AssetDataPoolMapping{d4, d1, d3})
	w.newApp("cswap", "cswap")
	w.newApp("harbor", "hbr")
	w.newApp("commodo", "cmdo")
	whale := w.addr[0]
	for _, d := range []string{"uasset1", "uasset2", "uasset3", "uasset4"} {
		w.fund(whale, d, 1000000000000000)
	}
	w.must(w.deliver(lendtypes.NewMsgLend(whale.String(), a2, sdk.NewCoin("uasset2", sdk.NewInt(10000000000)), 1, 3)), "lend a2")
	w.must(w.deliver(lendtypes.NewMsgFundModuleAccounts(1, a1, whale.String(), sdk.NewCoin("uasset1", sdk.NewInt(10000000000)))), "fund 1/a1")
	w.must(w.deliver(lendtypes.NewMsgFundModuleAccounts(1, a2, whale.String(), sdk.NewCoin("uasset2", sdk.NewInt(10000000000)))), "fund 1/a2")
	w.must(w.deliver(lendtypes.NewMsgFundModuleAccounts(1, a3, whale.String(), sdk.NewCoin("uasset3", sdk.NewInt(120000000)))), "fund 1/a3")
	w.must(w.deliver(lendtypes.NewMsgFundModuleAccounts(2, a1, whale.String(), sdk.NewCoin("uasset1", sdk.NewInt(10000000000)))), "fund 2/a1")
	w.must(w.deliver(lendtypes.NewMsgFundModuleAccounts(2, a4, whale.String(), sdk.NewCoin("uasset4", sdk.NewInt(10000000000)))), "fund 2/a4")
	// borrowers: lend asset one (price 2.0), borrow asset two (price 2.0) at LTV 0.7; liquidation threshold 0.75
	for i := 0; i < nBorrows; i++ {
		u := w.addr[1+i]
		w.fund(u, "uasset1", 1000000000000)
		amt := int64(100000000 * (i + 1))
		w.must(w.deliver(lendtypes.NewMsgLend(u.String(), a1, sdk.NewCoin("uasset1", sdk.NewInt(amt*10)), 1, 3)), "lend a1")
		lendID, ok := w.app.LendKeeper.GetLendIDForAssetIDPoolID(w.ctx, u.String(), a1, 1)
		if !ok {
			w.t.Fatal("no lend position")
		}
		w.must(w.deliver(lendtypes.NewMsgBorrow(u.String(), lendID, 1, false, sdk.NewCoin("ucasset1", sdk.NewInt(amt)), sdk.NewCoin("uasset2", sdk.NewInt(amt*7/10)))), "borrow")
	}
	// vaults of app 2: collateral asset 2, debt asset 3
	w.must(w.app.AssetKeeper.AddPairsRecords(w.ctx, assettypes.Pair{AssetIn: a2, AssetOut: a3}), "pair")
	w.must(w.app.AssetKeeper.WasmAddExtendedPairsVaultRecords(w.ctx, &bindings.MsgAddExtendedPairsVault{
		AppID: 2, PairID: 1, StabilityFee: c15Dec("0.01"), ClosingFee: c15Dec("0"), LiquidationPenalty: c15Dec("0.12"), DrawDownFee: c15Dec("0.01"),
		IsVaultActive: true, DebtCeiling: sdk.NewInt(1000000000000), DebtFloor: sdk.NewInt(1000000), MinCr: c15Dec("1.5"), PairName: "CMDX-B",
		AssetOutOraclePrice: true, AssetOutPrice: 1000000, MinUsdValueLeft: 1000000}), "ext pair")
	dutch := liqv2types.DutchAuctionParam{Premium: c15Dec("1.2"), Discount: c15Dec("0.7"), DecrementFactor: sdk.NewInt(1)}
	english := liqv2types.EnglishAuctionParam{DecrementFactor: sdk.NewInt(1)}
	w.app.NewliqKeeper.SetLiquidationWhiteListing(w.ctx, liqv2types.LiquidationWhiteListing{AppId: 2, Initiator: true, IsDutchActivated: true,
		DutchAuctionParam: &dutch, IsEnglishActivated: true, EnglishAuctionParam: &english, KeeeperIncentive: c15Dec("0.1")})
	w.app.NewliqKeeper.SetLiquidationWhiteListing(w.ctx, liqv2types.LiquidationWhiteListing{AppId: 3, Initiator: true, IsDutchActivated: true,
		DutchAuctionParam: &dutch, IsEnglishActivated: false, KeeeperIncentive: c15Dec("0.1")})
	w.app.NewaucKeeper.SetAuctionParams(w.ctx, aucv2types.AuctionParams{AuctionDurationSeconds: 3600, Step: c15Dec("0.1"), WithdrawalFee: c15Dec("0.0"),
		ClosingFee: c15Dec("0.0"), MinUsdValueLeft: 100000, BidFactor: c15Dec("0.1"), LiquidationPenalty: c15Dec("0.1"), AuctionBonus: c15Dec("0.0")})
	w.setupCollector(2, a3, a4, false)
	w.must(w.app.LendKeeper.AddAuctionParamsData(w.ctx, lendtypes.AuctionParams{AppId: 3, AuctionDurationSeconds: 21600, Buffer: c15Dec("1.2"),
		Cusp: c15Dec("0.7"), Step: sdk.NewInt(360), PriceFunctionType: 1, DutchId: 3, BidDurationSeconds: 3600}), "lend auction params")
	if nVaults > 0 {
		// a second product with a FIXED debt price (AssetOutOraclePrice = false) and one vault on it
		w.must(w.app.AssetKeeper.WasmAddExtendedPairsVaultRecords(w.ctx, &bindings.MsgAddExtendedPairsVault{
			AppID: 2, PairID: 1, StabilityFee: c15Dec("0.01"), ClosingFee: c15Dec("0"), LiquidationPenalty: c15Dec("0.12"), DrawDownFee: c15Dec("0.01"),
			IsVaultActive: true, DebtCeiling: sdk.NewInt(1000000000000), DebtFloor: sdk.NewInt(1000000), MinCr: c15Dec("1.5"), PairName: "CMDX-C",
			AssetOutOraclePrice: false, AssetOutPrice: 1000000, MinUsdValueLeft: 1000000}), "ext pair fixed")
		u := w.addr[5]
		w.fund(u, "uasset2", 100000000)
		w.must(w.deliver(&vaulttypes.MsgCreateRequest{From: u.String(), AppId: 2, ExtendedPairVaultId: 2,
			AmountIn: sdk.NewInt(1000000), AmountOut: sdk.NewInt(1000000)}), "v2 fixed-price vault create")
	}
	for i := 0; i < nVaults; i++ {
		u := w.addr[1+i]
		w.fund(u, "uasset2", 100000000)
		w.must(w.deliver(&vaulttypes.MsgCreateRequest{From: u.String(), AppId: 2, ExtendedPairVaultId: 1,
			AmountIn: sdk.NewInt(int64(1000000 + 1000*i)), AmountOut: sdk.NewInt(1000000)}), "v2 vault create")
	}
}

// ---------------------------------------------------------------------------------------------------------------
// liquidity (pairs, pools, pending deposit/withdraw requests, resting limit orders, queued farmers) and an
// incentive gauge, for the given app, on the given two denoms (quote = second denom).

func (w *c15World) setupLiquidity(appID uint64, base, quote string, users []sdk.AccAddress) {
	lk := w.app.LiquidityKeeper
	params, err := lk.GetGenericParams(w.ctx, appID)
	w.must(err, "generic params")
	creator := users[0]
	for _, c := range params.PairCreationFee {
		w.fund(creator, c.Denom, c.Amount.Int64())
	}
	for _, c := range params.PoolCreationFee {
		w.fund(creator, c.Denom, c.Amount.Int64())
	}
	w.must(w.deliver(liquiditytypes.NewMsgCreatePair(appID, creator, base, quote)), "create pair")
	w.fund(creator, base, 2000000000)
	w.fund(creator, quote, 2000000000)
	w.must(w.deliver(liquiditytypes.NewMsgCreatePool(appID, creator, 1, sdk.NewCoins(sdk.NewCoin(base, sdk.NewInt(1000000000)), sdk.NewCoin(quote, sdk.NewInt(1000000000))))), "create pool")
	for i, u := range users[1:] {
		w.fund(u, base, 500000000)
		w.fund(u, quote, 500000000)
		// a pending deposit request
		w.must(w.deliver(liquiditytypes.NewMsgDeposit(appID, u, 1, sdk.NewCoins(sdk.NewCoin(base, sdk.NewInt(int64(1000000*(i+1)))), sdk.NewCoin(quote, sdk.NewInt(int64(1000000*(i+1))))))), "deposit")
		// resting limit orders on both sides of the pool price 1.0
		price := sdk.MustNewDecFromStr("0.98")
		amt := sdk.NewInt(int64(100000 * (i + 1)))
		offer := sdk.NewCoin(quote, price.MulInt(amt).MulInt64(101).QuoInt64(100).Ceil().TruncateInt())
		w.must(w.deliver(liquiditytypes.NewMsgLimitOrder(appID, u, 1, liquiditytypes.OrderDirectionBuy, offer, base, price, amt, 60*time.Second)), "buy order")
		price = sdk.MustNewDecFromStr("1.02")
		w.must(w.deliver(liquiditytypes.NewMsgLimitOrder(appID, u, 1, liquiditytypes.OrderDirectionSell, sdk.NewCoin(base, amt.MulRaw(101).QuoRaw(100)), quote, price, amt, 60*time.Second)), "sell order")
	}
}

// liquidityFollowUp: after the first batch the depositors hold pool coins: queue them as farmers, file a
// withdraw request, place crossing orders for the next batch.
func (w *c15World) liquidityFollowUp(appID uint64, base, quote string, users []sdk.AccAddress) {
	pool, found := w.app.LiquidityKeeper.GetPool(w.ctx, appID, 1)
	if !found {
		w.t.Fatal("pool 1 missing")
	}
	for i, u := range users[1:] {
		bal := w.app.BankKeeper.GetBalance(w.ctx, u, pool.PoolCoinDenom)
		if bal.Amount.IsPositive() {
			half := sdk.NewCoin(pool.PoolCoinDenom, bal.Amount.QuoRaw(2))
			if i%2 == 0 {
				w.must(w.deliver(liquiditytypes.NewMsgFarm(appID, 1, u, half)), "farm")
			} else {
				w.must(w.deliver(liquiditytypes.NewMsgWithdraw(appID, u, 1, half)), "withdraw")
			}
			w.tr.Count("fixture:liquidity.poolcoin-holder")
		}
		amt := sdk.NewInt(int64(50000 * (i + 1)))
		price := sdk.MustNewDecFromStr("1.03")
		offer := sdk.NewCoin(quote, price.MulInt(amt).MulInt64(101).QuoInt64(100).Ceil().TruncateInt())
		w.must(w.deliver(liquiditytypes.NewMsgLimitOrder(appID, u, 1, liquiditytypes.OrderDirectionBuy, offer, base, price, amt, 30*time.Second)), "crossing buy")
	}
}

func (w *c15World) createGauge(appID uint64, from sdk.AccAddress, denom string) {
	w.fund(from, denom, 1000000000)
	msg := rewardstypes.NewMsgCreateGauge(appID, from, w.ctx.BlockTime().Add(10*time.Second), rewardstypes.LiquidityGaugeTypeID, 24*time.Hour,
		sdk.NewCoin(denom, sdk.NewInt(300000000)), 3)
	msg.Kind = &rewardstypes.MsgCreateGauge_LiquidityMetaData{LiquidityMetaData: &rewardstypes.LiquidtyGaugeMetaData{PoolId: 1, IsMasterPool: false, ChildPoolIds: []uint64{}}}
	w.must(w.deliver(msg), "create gauge")
}

// ---------------------------------------------------------------------------------------------------------------
// several apps whitelisted for first-generation liquidation, vaults of all of them interleaved or grouped in the one
// global vault list. weak[a] vaults of app a+1 are opened at CR 2.0 (liquidatable once the collateral price halves),
// strong[a] at CR 16.

func (w *c15World) setupV1Multi(weak, strong []int, interleave bool) {
	ak := w.app.AssetKeeper
	for _, a := range []assettypes.Asset{
		{Name: "CMDX", Denom: "ucmdx", Decimals: sdk.NewInt(1000000), IsOnChain: true, IsCdpMintable: true, IsOraclePriceRequired: true},
		{Name: "CMST", Denom: "ucmst", Decimals: sdk.NewInt(1000000), IsOnChain: true, IsCdpMintable: true, IsOraclePriceRequired: true},
		{Name: "HARBOR", Denom: "uharbor", Decimals: sdk.NewInt(1000000), IsOnChain: true, IsCdpMintable: true},
	} {
		w.must(ak.AddAssetRecords(w.ctx, a), "asset "+a.Name)
	}
	w.must(ak.AddPairsRecords(w.ctx, assettypes.Pair{AssetIn: 1, AssetOut: 2}), "pair")
	w.setPrice(1, 2000000, true)
	w.setPrice(2, 1000000, true)
	names := []string{"harbor", "commodo", "cswap", "fourth"}
	type job struct {
		app    uint64
		amtIn  int64
	}
	var perApp [][]job
	for a := range weak {
		app := uint64(a + 1)
		w.must(ak.AddAppRecords(w.ctx, assettypes.AppData{Name: names[a], ShortName: names[a][:3], MinGovDeposit: sdk.NewInt(0)}), "app")
		w.must(ak.WasmAddExtendedPairsVaultRecords(w.ctx, &bindings.MsgAddExtendedPairsVault{
			AppID: app, PairID: 1, StabilityFee: c15Dec("0.01"), ClosingFee: c15Dec("0"), LiquidationPenalty: c15Dec("0.12"), DrawDownFee: c15Dec("0.01"),
			IsVaultActive: true, DebtCeiling: sdk.NewInt(1000000000000), DebtFloor: sdk.NewInt(1000000), MinCr: c15Dec("1.5"),
			PairName: "CMDX-" + string(rune('A'+a)), AssetOutOraclePrice: true, AssetOutPrice: 1000000, MinUsdValueLeft: 1000000}), "ext pair")
		w.must(w.app.LiquidationKeeper.WasmWhitelistAppIDLiquidation(w.ctx, app), "whitelist v1")
		w.app.AuctionKeeper.SetAuctionParams(w.ctx, auctiontypes.AuctionParams{AppId: app, AuctionDurationSeconds: 300, Buffer: c15Dec("1.2"),
			Cusp: c15Dec("0.6"), Step: sdk.NewIntFromUint64(1), PriceFunctionType: 1, SurplusId: 1, DebtId: 2, DutchId: 3, BidDurationSeconds: 300})
		var js []job
		for i := 0; i < weak[a]; i++ {
			js = append(js, job{app, 10000000})
		}
		for i := 0; i < strong[a]; i++ {
			js = append(js, job{app, 80000000})
		}
		perApp = append(perApp, js)
	}
	var order []job
	if interleave {
		for i := 0; ; i++ {
			any := false
			for _, js := range perApp {
				if i < len(js) {
					order = append(order, js[i])
					any = true
				}
			}
			if !any {
				break
			}
		}
	} else {
		for _, js := range perApp {
			order = append(order, js...)
		}
	}
	for i, j := range order {
		u := c15Addr(200 + i)
		w.fund(u, "ucmdx", j.amtIn)
		w.must(w.deliver(&vaulttypes.MsgCreateRequest{From: u.String(), AppId: j.app, ExtendedPairVaultId: j.app,
			AmountIn: sdk.NewInt(j.amtIn), AmountOut: sdk.NewInt(10000000)}), "multi-app vault create")
	}
}
