//go:build verif

package harness

import (
	"strconv"
	"strings"

	sdkmath "cosmossdk.io/math"

	"github.com/comdex-official/comdex/x/liquidity/amm"
	liqtypes "github.com/comdex-official/comdex/x/liquidity/types"
)

// C05 — ranged pools (x/liquidity/amm/pool.go RangedPool, DeriveTranslation, PoolBuyOrders / PoolSellOrders over a ranged
// pool). Lines (see lean/Comdex/Drv/AmmMatch.lean):
//   amm.rp <fn> <rx> <ry> <min> <max> <price> <result|panic>     fn: trans (result `transX:transY`), price, bo, su, bt, st
//   amm.rpool <rx> <ry> <min> <max> <lowest> <highest> <prec> <buys> <sells>

func c05OrderList(os []amm.Order) string {
	ss := make([]string, len(os))
	for i, o := range os {
		ss[i] = c05Raw(o.GetPrice()) + ":" + o.GetAmount().String()
	}
	return strings.Join(ss, ",")
}

// the correspondence lines of one REAL ranged pool (as the keeper builds it in every batch: NewRangedPool from the reserves)
func c05RangedPoolLine(tr *Trace, rx, ry sdkmath.Int, minP, maxP, lowest, highest sdkmath.LegacyDec, prec int) (ok bool) {
	var pool *amm.RangedPool
	if panicked, _ := try(func() { pool = amm.NewRangedPool(rx, ry, sdkmath.OneInt(), minP, maxP) }); panicked {
		tr.Line("amm.rp", "trans", rx.String(), ry.String(), c05Raw(minP), c05Raw(maxP), "0", "panic")
		tr.Count("ranged:new-panic")
		return false
	}
	tx, ty := pool.Translation()
	tr.Line("amm.rp", "trans", rx.String(), ry.String(), c05Raw(minP), c05Raw(maxP), "0", c05Raw(tx)+":"+c05Raw(ty))
	buys := amm.PoolBuyOrders(pool, amm.DefaultOrderer, lowest, highest, prec)
	sells := amm.PoolSellOrders(pool, amm.DefaultOrderer, lowest, highest, prec)
	switch {
	case len(buys) == 0 && len(sells) == 0:
		tr.Count("ranged-orders:none")
	case len(buys)+len(sells) < 20:
		tr.Count("ranged-orders:1-19")
	default:
		tr.Count("ranged-orders:20+")
	}
	if len(buys) > 0 && buys[0].GetPrice().Equal(highest) && pool.Price().GT(highest) {
		tr.Count("ranged-orders:buy-to-limit")
	}
	if len(sells) > 0 && sells[0].GetPrice().Equal(lowest) && pool.Price().LT(lowest) {
		tr.Count("ranged-orders:sell-to-limit")
	}
	tr.Line("amm.rpool", rx.String(), ry.String(), c05Raw(minP), c05Raw(maxP), c05Raw(lowest), c05Raw(highest),
		strconv.Itoa(prec), c05OrderList(buys), c05OrderList(sells))
	return true
}

// ---- the keeper's first batch of a pair WITH pools: FindMatchPrice over MultipleOrderViews{book view, pools…}, one buy and one
// sell order per pool at the found price, MatchAtSinglePrice (keeper/swap.go:673-694). Lines:
//   amm.pv <poolId> basic <rx> <ry> | amm.pv <poolId> ranged <rx> <ry> <min> <max>        (after amm.begin / amm.order)
//   amm.op firstp <prec> <price|none> <ok|nomatch|panic> <qcd|-> <poolOrders> <results>
//          poolOrders: `id:poolId:dir:price:amount:offer` of the orders the pools placed (ids continue the sequence's),
//          results: every order of the sequence including those, as for the other ops
func c05OpFirstPools(tr *Trace, os []*c05Order, pools []*liqtypes.PoolOrderer, prec int) {
	snap := c05Snapshot(os)
	var price, outcome, qcd = "none", "", "-"
	var created []string
	all := os
	panicked, _ := try(func() {
		ob := amm.NewOrderBook(c05Objs(os)...)
		ov := amm.MultipleOrderViews{ob.MakeView()}
		for _, pool := range pools {
			ov = append(ov, pool)
		}
		mp, found := amm.FindMatchPrice(ov, prec)
		if !found {
			outcome = "nomatch"
			return
		}
		price = c05Raw(mp)
		for _, pool := range pools {
			add := func(dir amm.OrderDirection, amt sdkmath.Int) {
				if !amt.IsPositive() {
					return
				}
				o := pool.Order(dir, mp, amt)
				ob.AddOrder(o)
				x := &c05Order{id: len(all), kind: 1, oid: pool.ID, o: o}
				all = append(all, x)
				created = append(created, strconv.Itoa(x.id)+":"+u(pool.ID)+":"+c05Dir(dir)+":"+c05Raw(mp)+":"+amt.String()+":"+o.GetOfferCoinAmount().String())
			}
			add(amm.Buy, pool.BuyAmountOver(mp, true))
			add(amm.Sell, pool.SellAmountUnder(mp, true))
		}
		q, matched := ob.MatchAtSinglePrice(mp)
		if matched {
			outcome, qcd = "ok", q.String()
		} else {
			outcome = "nomatch"
		}
	})
	if panicked {
		outcome, qcd = "panic", "-"
	}
	tr.Count("firstp:" + outcome)
	if len(created) > 0 {
		tr.Count("firstp:with-pool-orders")
	}
	tr.Line("amm.op", "firstp", strconv.Itoa(prec), price, outcome, qcd, strings.Join(created, ","), c05Results(all))
	c05Stats(tr, os, snap, true)
}

// user orders around a centre plus one or two non-depleted pools (basic / ranged) whose price is near it
func (g *c05Gen) firstPoolsCase(tr *Trace) {
	r := g.rng
	g.prec = 2 + r.Intn(3)
	g.loIdx = amm.TickToIndex(c05Dec("0.00000000000001"), g.prec)
	g.hiIdx = amm.TickToIndex(c05Dec("100000000000000000000"), g.prec)
	lo := amm.TickToIndex(c05Dec("0.000001"), g.prec)
	hi := amm.TickToIndex(c05Dec("1000000"), g.prec)
	g.center = lo + r.Intn(hi-lo+1)
	g.lastAmts = nil
	cp := g.tick(0)
	var os []*c05Order
	nu := r.Intn(7)
	for i := 0; i < nu; i++ {
		dir := amm.Buy
		if r.Chance(50) {
			dir = amm.Sell
		}
		delta := r.Intn(81) - 40
		if (dir == amm.Buy) == r.Chance(65) && delta < 0 {
			delta = -delta
		}
		price := g.tick(delta)
		amt := g.amount(tr, price)
		if amt.GT(c05Pow10(14)) {
			amt = c05Pow10(3 + r.Intn(10))
		}
		os = append(os, c05New(len(os), 0, uint64(1+r.Intn(40)), uint64(r.Intn(3)), dir, price, amt, amm.OfferCoinAmount(dir, price, amt)))
	}
	c05Begin(tr, os)
	var pools []*liqtypes.PoolOrderer
	np := 1 + r.Intn(2)
	for pi := 0; pi < np; pi++ {
		dev := int64(r.Intn(101) - 50)
		pp := cp.Mul(sdkmath.LegacyNewDec(1000 + dev)).QuoInt64(1000)
		ry := c05Pow10(3 + r.Intn(9)).MulRaw(int64(1 + r.Intn(9)))
		rx := pp.MulInt(ry).TruncateInt()
		if !rx.IsPositive() {
			continue
		}
		pid := uint64(pi + 1)
		if r.Chance(50) {
			bp, err := amm.CreateBasicPool(rx, ry)
			if err != nil {
				continue
			}
			pools = append(pools, liqtypes.NewPoolOrderer(bp, pid, nil, "base", "quote"))
			tr.Line("amm.pv", u(pid), "basic", rx.String(), ry.String())
			tr.Count("firstp:pool-basic")
		} else {
			minP := amm.PriceToDownTick(pp.Mul(c05Dec("0.8")), g.prec)
			maxP := amm.PriceToUpTick(pp.Mul(c05Dec("1.25")), g.prec)
			rp, err := amm.CreateRangedPool(rx, ry, minP, maxP, pp)
			if err != nil {
				continue
			}
			prx, pry := rp.Balances()
			pools = append(pools, liqtypes.NewPoolOrderer(rp, pid, nil, "base", "quote"))
			tr.Line("amm.pv", u(pid), "ranged", prx.String(), pry.String(), c05Raw(minP), c05Raw(maxP))
			tr.Count("firstp:pool-ranged")
		}
	}
	c05OpFirstPools(tr, os, pools, g.prec)
}

func c05RangedLines(tr *Trace, r *Rng, n int) {
	for k := 0; k < n; k++ {
		prec := 2 + r.Intn(3)
		lo := amm.TickToIndex(c05Dec("0.00000001"), prec)
		hi := amm.TickToIndex(c05Dec("100000000"), prec)
		lp := amm.TickFromIndex(lo+r.Intn(hi-lo+1), prec)
		lowest, highest := liqtypes.PriceLimits(lp, sdkmath.LegacyNewDecWithPrec(1, 1), prec)
		// the pool's price near the last price; sometimes outside the limits (BuyAmountTo / SellAmountTo branch)
		dev := int64(r.Intn(61) - 30)
		switch r.Intn(6) {
		case 0:
			dev = int64(r.Intn(601) - 300)
		case 1:
			dev = 0
		}
		pp := lp.Mul(sdkmath.LegacyNewDec(1000 + dev)).QuoInt64(1000)
		// the range: tight (0.2 %) … wide (x100), not always centred
		var wLo, wHi sdkmath.LegacyDec
		switch r.Intn(5) {
		case 0:
			wLo, wHi = c05Dec("0.998"), c05Dec("1.002")
		case 1:
			wLo, wHi = c05Dec("0.9"), c05Dec("1.1")
		case 2:
			wLo, wHi = c05Dec("0.5"), c05Dec("1.02")
		case 3:
			wLo, wHi = c05Dec("0.97"), c05Dec("3")
		default:
			wLo, wHi = c05Dec("0.01"), c05Dec("100")
		}
		minP := amm.PriceToDownTick(pp.Mul(wLo), prec)
		maxP := amm.PriceToUpTick(pp.Mul(wHi), prec)
		var ry sdkmath.Int
		switch r.Intn(5) {
		case 0:
			ry = sdkmath.NewInt(int64(1 + r.Intn(3000)))
		case 1:
			ry = c05Pow10(20 + r.Intn(12)).MulRaw(int64(1 + r.Intn(9)))
		default:
			ry = c05Pow10(3 + r.Intn(12)).MulRaw(int64(1 + r.Intn(999))).AddRaw(int64(r.Intn(1000)))
		}
		rx := pp.MulInt(ry).TruncateInt().AddRaw(int64(r.Intn(3)))
		var prx, pry sdkmath.Int
		switch r.Intn(10) {
		case 0: // reserves as they are after trades: anything, also single-sided
			prx, pry = rx, ry
			switch r.Intn(10) {
			case 0, 1, 2:
				prx = sdkmath.ZeroInt()
			case 3, 4:
				pry = sdkmath.ZeroInt()
			case 5: // rx/ry rounds to zero: treated as a single-asset (y) pool
				prx, pry = sdkmath.NewInt(int64(1+r.Intn(3))), c05Pow10(19+r.Intn(6))
				tr.Count("ranged:x-over-y-rounds-to-zero")
			case 6:
				prx, pry = c05Pow10(19+r.Intn(6)), sdkmath.NewInt(int64(1+r.Intn(3)))
				tr.Count("ranged:y-over-x-rounds-to-zero")
			}
			tr.Count("ranged:raw-reserves")
		case 1: // created at an end of its range: single-asset pool
			ip := minP
			if r.Chance(50) {
				ip = maxP
			}
			p, err := amm.CreateRangedPool(rx, ry, minP, maxP, ip)
			if err != nil {
				tr.Count("ranged:create-rejected")
				continue
			}
			prx, pry = p.Balances()
			tr.Count("ranged:created-at-edge")
		default:
			p, err := amm.CreateRangedPool(rx, ry, minP, maxP, pp)
			if err != nil {
				tr.Count("ranged:create-rejected")
				continue
			}
			prx, pry = p.Balances()
			tr.Count("ranged:created")
		}
		if !c05RangedPoolLine(tr, prx, pry, minP, maxP, lowest, highest, prec) {
			continue
		}
		pool := amm.NewRangedPool(prx, pry, sdkmath.OneInt(), minP, maxP)
		for q := 0; q < 3; q++ {
			price := amm.TickFromIndex(amm.TickToIndex(lp, prec)+r.Intn(81)-40, prec)
			switch r.Intn(10) {
			case 0:
				price = price.Add(sdkmath.LegacyNewDecWithPrec(int64(r.Intn(3)-1), 18))
			case 1:
				price = minP
			case 2:
				price = maxP
			}
			price = c05EdgePrice(tr, r, price, func() sdkmath.LegacyDec { return pool.Price() })
			for _, fn := range []string{"price", "bo", "su", "bt", "st"} {
				out := "panic"
				try(func() {
					switch fn {
					case "price":
						out = c05Raw(pool.Price())
					case "bo":
						out = pool.BuyAmountOver(price, true).String()
					case "su":
						out = pool.SellAmountUnder(price, true).String()
					case "bt":
						out = pool.BuyAmountTo(price).String()
					case "st":
						out = pool.SellAmountTo(price).String()
					}
				})
				tr.Line("amm.rp", fn, prx.String(), pry.String(), c05Raw(minP), c05Raw(maxP), c05Raw(price), out)
			}
		}
	}
}
