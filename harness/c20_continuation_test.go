//go:build verif

package harness

// C20 — the continuation workload: the same operations on the original and on the re-imported chain, at least one accepted
// operation of EVERY message type of every DeFi module, most of them against positions that went through the round trip
// (unfarm a queued position, cancel a re-imported order / MM order / limit bid, bid on re-imported auctions of both generations,
// repay / draw / close a re-imported borrow, close a re-imported locker, …). Outcome, observed state and newly assigned ids are
// compared (`gen.op`); the per-message-type distribution is printed by c20MsgReport.

import (
	"fmt"
	"os"
	"strings"
	"time"

	chain "github.com/comdex-official/comdex/app"
	assettypes "github.com/comdex-official/comdex/x/asset/types"
	auctiontypes "github.com/comdex-official/comdex/x/auction/types"
	auctionsV2types "github.com/comdex-official/comdex/x/auctionsV2/types"
	collectortypes "github.com/comdex-official/comdex/x/collector/types"
	esmtypes "github.com/comdex-official/comdex/x/esm/types"
	lendtypes "github.com/comdex-official/comdex/x/lend/types"
	liquidationtypes "github.com/comdex-official/comdex/x/liquidation/types"
	liqV2types "github.com/comdex-official/comdex/x/liquidationsV2/types"
	liquiditytypes "github.com/comdex-official/comdex/x/liquidity/types"
	lockertypes "github.com/comdex-official/comdex/x/locker/types"
	rewardstypes "github.com/comdex-official/comdex/x/rewards/types"
	tokenminttypes "github.com/comdex-official/comdex/x/tokenmint/types"
	vaulttypes "github.com/comdex-official/comdex/x/vault/types"
	sdk "github.com/cosmos/cosmos-sdk/types"
)

func c20Verbose(format string, args ...interface{}) {
	if os.Getenv("C20_VERBOSE") != "" {
		fmt.Printf("   "+format+"\n", args...)
	}
}

func c20Continuation(us []sdk.AccAddress) []c20Op {
	coin := func(d string, n int64) sdk.Coin { return sdk.NewCoin(d, sdk.NewInt(n)) }
	coins := func(s string) sdk.Coins { c, _ := sdk.ParseCoinsNormalized(s); return c }
	// per chain memory (ids assigned earlier in the workload differ between the chains — that is what is being observed)
	mem := map[*chain.App]map[string]uint64{}
	remember := func(a *chain.App, k string, v uint64) {
		if mem[a] == nil {
			mem[a] = map[string]uint64{}
		}
		mem[a][k] = v
	}
	m := func(msg func() sdk.Msg, obs func(app *chain.App, ctx sdk.Context) string) func(app *chain.App, ctx sdk.Context) string {
		return func(app *chain.App, ctx sdk.Context) string {
			mm := msg()
			ok, d := c20Deliver(app, ctx, mm)
			if !ok {
				c20Verbose("continuation op failed (%s): %s", sdk.MsgTypeURL(mm), d)
				return "err"
			}
			if obs == nil {
				return "ok"
			}
			return "ok:" + obs(app, ctx)
		}
	}
	// several messages in a row; the outcome lists which were accepted, then the observation
	seq := func(obs func(app *chain.App, ctx sdk.Context) string, msgs ...func(app *chain.App, ctx sdk.Context) sdk.Msg) func(app *chain.App, ctx sdk.Context) string {
		return func(app *chain.App, ctx sdk.Context) string {
			var sb strings.Builder
			for _, mk := range msgs {
				mm := mk(app, ctx)
				ok, d := c20Deliver(app, ctx, mm)
				if !ok {
					c20Verbose("continuation op failed (%s): %s", sdk.MsgTypeURL(mm), d)
				}
				fmt.Fprintf(&sb, "%t/", ok)
			}
			if obs != nil {
				sb.WriteString(obs(app, ctx))
			}
			return sb.String()
		}
	}
	fixed := func(msg sdk.Msg) func(*chain.App, sdk.Context) sdk.Msg {
		return func(*chain.App, sdk.Context) sdk.Msg { return msg }
	}
	u6 := us[5]
	bal := func(a *chain.App, c sdk.Context, addr sdk.AccAddress, denom string) string {
		return a.BankKeeper.GetBalance(c, addr, denom).Amount.String()
	}
	setPrice := func(a *chain.App, c sdk.Context, asset, price uint64) {
		tw, _ := a.MarketKeeper.GetTwa(c, asset)
		tw.Twa, tw.PriceValue = price, []uint64{price}
		a.MarketKeeper.SetTwa(c, tw)
	}
	return []c20Op{
		// ---- vault -------------------------------------------------------------------------------------------------------
		{"new_vault_id", m(func() sdk.Msg {
			return vaulttypes.NewMsgCreateRequest(u6, 2, 1, sdk.NewInt(100000000), sdk.NewInt(1000000))
		},
			func(a *chain.App, c sdk.Context) string {
				remember(a, "vault", a.VaultKeeper.GetIDForVault(c))
				return u(a.VaultKeeper.GetIDForVault(c))
			})},
		{"vault_deposit_draw", func(a *chain.App, c sdk.Context) string {
			// the one vault that is still open (vault 3 of user 4): deposit collateral, draw debt
			ok1, _ := c20Deliver(a, c, vaulttypes.NewMsgDepositRequest(us[3], 2, 1, 3, sdk.NewInt(1000000)))
			ok2, _ := c20Deliver(a, c, vaulttypes.NewMsgDrawRequest(us[3], 2, 1, 3, sdk.NewInt(100000)))
			v, _ := a.VaultKeeper.GetVault(c, 3)
			return fmt.Sprintf("%t/%t/%s/%s", ok1, ok2, v.AmountIn, v.AmountOut)
		}},
		{"vault_withdraw_repay", seq(func(a *chain.App, c sdk.Context) string {
			v, _ := a.VaultKeeper.GetVault(c, 3)
			return v.AmountIn.String() + "/" + v.AmountOut.String() + "/" + v.InterestAccumulated.String()
		}, fixed(vaulttypes.NewMsgWithdrawRequest(us[3], 2, 1, 3, sdk.NewInt(300000))), fixed(vaulttypes.NewMsgRepayRequest(us[3], 2, 1, 3, sdk.NewInt(40000))))},
		{"vault_deposit_and_draw", m(func() sdk.Msg { return vaulttypes.NewMsgDepositAndDrawRequest(us[3], 2, 1, 3, sdk.NewInt(3000000)) },
			func(a *chain.App, c sdk.Context) string {
				v, _ := a.VaultKeeper.GetVault(c, 3)
				return v.AmountIn.String() + "/" + v.AmountOut.String()
			})},
		{"vault_interest_calc", m(func() sdk.Msg { return vaulttypes.NewMsgVaultInterestCalcRequest(us[3], 2, 3) },
			func(a *chain.App, c sdk.Context) string {
				v, _ := a.VaultKeeper.GetVault(c, 3)
				tr, _ := a.Rewardskeeper.GetVaultInterestTracker(c, 3, 2)
				return v.InterestAccumulated.String() + "/" + tr.InterestAccumulated.String()
			})},
		{"vault_close_new", func(a *chain.App, c sdk.Context) string {
			ok, d := c20Deliver(a, c, &vaulttypes.MsgCloseRequest{From: u6.String(), AppId: 2, ExtendedPairVaultId: 1, UserVaultId: mem[a]["vault"]})
			if !ok {
				c20Verbose("vault_close_new: %s", d)
			}
			return fmt.Sprintf("%t/%s", ok, bal(a, c, u6, "uasset2"))
		}},
		// ---- locker ------------------------------------------------------------------------------------------------------
		{"locker_deposit", m(func() sdk.Msg {
			return lockertypes.NewMsgDepositAssetRequest(us[1].String(), 2, sdk.NewInt(700000), 3, 2)
		},
			func(a *chain.App, c sdk.Context) string {
				l, _ := a.LockerKeeper.GetLocker(c, 2)
				return l.Depositor + "/" + l.NetBalance.String()
			})},
		{"locker_reward_calc", m(func() sdk.Msg { return lockertypes.NewMsgLockerRewardCalcRequest(us[1].String(), 2, 2) },
			func(a *chain.App, c sdk.Context) string {
				l, _ := a.LockerKeeper.GetLocker(c, 2)
				return l.NetBalance.String() + "/" + l.ReturnsAccumulated.String()
			})},
		{"locker_deposit_zero_rate_history", func(a *chain.App, c sdk.Context) string {
			// locker 6 was opened while the saving rate was zero; the rate was switched on later: the savings paid now run from the
			// lookup record's BlockTime
			var id uint64
			for _, l := range a.LockerKeeper.GetLockers(c) {
				if l.Depositor == us[3].String() && l.AssetDepositId == 2 {
					id = l.LockerId
				}
			}
			ok, d := c20Deliver(a, c, lockertypes.NewMsgDepositAssetRequest(us[3].String(), id, sdk.NewInt(1000), 2, 2))
			if !ok {
				c20Verbose("locker_deposit_zero_rate_history: %s", d)
			}
			l, _ := a.LockerKeeper.GetLocker(c, id)
			return fmt.Sprintf("%t/%s/%s", ok, l.NetBalance, l.ReturnsAccumulated)
		}},
		{"locker_close", m(func() sdk.Msg { return lockertypes.NewMsgCloseLockerRequest(us[1].String(), 2, 3, 2) },
			func(a *chain.App, c sdk.Context) string {
				_, found := a.LockerKeeper.GetLocker(c, 2)
				return fmt.Sprintf("%t/%s", found, bal(a, c, us[1], "uasset3"))
			})},
		// ---- lend --------------------------------------------------------------------------------------------------------
		{"lend_deposit_withdraw", func(a *chain.App, c sdk.Context) string {
			ok1, d1 := c20Deliver(a, c, lendtypes.NewMsgDeposit(us[0].String(), 2, coin("uasset2", 5000000)))
			ok2, d2 := c20Deliver(a, c, lendtypes.NewMsgWithdraw(us[0].String(), 2, coin("uasset2", 2000000)))
			if !ok1 || !ok2 {
				c20Verbose("lend deposit/withdraw: %s | %s", d1, d2)
			}
			l, _ := a.LendKeeper.GetLend(c, 2)
			return fmt.Sprintf("%t/%t/%s", ok1, ok2, l.AmountIn.Amount)
		}},
		{"lend_borrow_ops", seq(func(a *chain.App, c sdk.Context) string {
			// the re-imported borrow 4 of user 1: more collateral, draw, repay
			b, _ := a.LendKeeper.GetBorrow(c, 4)
			return b.AmountIn.Amount.String() + "/" + b.AmountOut.Amount.String()
		}, fixed(lendtypes.NewMsgDepositBorrow(us[0].String(), 4, coin("ucasset2", 20000))), fixed(lendtypes.NewMsgDraw(us[0].String(), 4, coin("uasset1", 2000))),
			fixed(lendtypes.NewMsgRepay(us[0].String(), 4, coin("uasset1", 1000))))},
		{"lend_fund", seq(func(a *chain.App, c sdk.Context) string {
			mb, _ := a.LendKeeper.GetModuleBalanceByPoolID(c, 1)
			return u(uint64(len(mb.ModuleBalanceStats)))
		}, fixed(lendtypes.NewMsgFundModuleAccounts(1, 1, u6.String(), coin("uasset1", 1000000))), fixed(lendtypes.NewMsgFundReserveAccounts(1, u6.String(), coin("uasset1", 1000))))},
		// ---- liquidity ---------------------------------------------------------------------------------------------------
		{"liq_deposit_request_id", m(func() sdk.Msg {
			return liquiditytypes.NewMsgDeposit(1, u6, 1, coins("3000000uasset1,3000000uasset2"))
		}, func(a *chain.App, c sdk.Context) string {
			p, _ := a.LiquidityKeeper.GetPool(c, 1, 1)
			return u(p.LastDepositRequestId) + "/" + u(p.LastWithdrawRequestId)
		})},
		{"liq_unfarm", m(func() sdk.Msg {
			return liquiditytypes.NewMsgUnfarm(1, 1, us[0], sdk.NewCoin("pool1-1", sdk.NewInt(400000)))
		}, nil)},
		{"liq_unfarm_queued", m(func() sdk.Msg {
			// a position that is still in the farming queue of the ranged pool 3 (pool id != pair id)
			return liquiditytypes.NewMsgUnfarm(1, 3, us[2], sdk.NewCoin("pool1-3", sdk.NewInt(10000000)))
		}, func(a *chain.App, c sdk.Context) string {
			q, _ := a.LiquidityKeeper.GetQueuedFarmer(c, 1, 3, us[2])
			n := sdk.ZeroInt()
			for _, qc := range q.QueudCoins {
				n = n.Add(qc.FarmedPoolCoin.Amount)
			}
			return n.String() + "/" + bal(a, c, us[2], "pool1-3")
		})},
		{"liq_unfarm_queued_and_active", m(func() sdk.Msg {
			// more than the queued part of user 1's position in the ranged pool: the rest comes off the active position
			return liquiditytypes.NewMsgUnfarm(1, 3, us[0], sdk.NewCoin("pool1-3", sdk.NewInt(700000)))
		}, func(a *chain.App, c sdk.Context) string {
			af, _ := a.LiquidityKeeper.GetActiveFarmer(c, 1, 3, us[0])
			_, q := a.LiquidityKeeper.GetQueuedFarmer(c, 1, 3, us[0])
			return fmt.Sprintf("%s/%t", af.FarmedPoolCoin.Amount, q)
		})},
		{"liq_withdraw_request", m(func() sdk.Msg {
			return liquiditytypes.NewMsgWithdraw(1, us[0], 3, sdk.NewCoin("pool1-3", sdk.NewInt(1000000)))
		},
			func(a *chain.App, c sdk.Context) string {
				p, _ := a.LiquidityKeeper.GetPool(c, 1, 3)
				return u(p.LastDepositRequestId) + "/" + u(p.LastWithdrawRequestId)
			})},
		{"liq_farm_more", m(func() sdk.Msg {
			return liquiditytypes.NewMsgFarm(1, 3, us[1], sdk.NewCoin("pool1-3", sdk.NewInt(1000000)))
		},
			func(a *chain.App, c sdk.Context) string {
				q, _ := a.LiquidityKeeper.GetQueuedFarmer(c, 1, 3, us[1])
				return u(uint64(len(q.QueudCoins)))
			})},
		{"liq_deposit_and_farm", m(func() sdk.Msg {
			return liquiditytypes.NewMsgDepositAndFarm(1, u6, 1, coins("2000000uasset1,2000000uasset2"))
		},
			func(a *chain.App, c sdk.Context) string {
				p, _ := a.LiquidityKeeper.GetPool(c, 1, 1)
				return u(p.LastDepositRequestId)
			})},
		{"liq_unfarm_and_withdraw", m(func() sdk.Msg {
			return liquiditytypes.NewMsgUnfarmAndWithdraw(1, 3, us[1], sdk.NewCoin("pool1-3", sdk.NewInt(2000000)))
		}, func(a *chain.App, c sdk.Context) string {
			af, _ := a.LiquidityKeeper.GetActiveFarmer(c, 1, 3, us[1])
			p, _ := a.LiquidityKeeper.GetPool(c, 1, 3)
			return af.FarmedPoolCoin.Amount.String() + "/" + u(p.LastWithdrawRequestId)
		})},
		{"liq_market_order", m(func() sdk.Msg {
			return liquiditytypes.NewMsgMarketOrder(1, u6, 1, liquiditytypes.OrderDirectionBuy, coin("uasset2", 1200000), "uasset1", sdk.NewInt(1000000), 0)
		}, func(a *chain.App, c sdk.Context) string {
			p, _ := a.LiquidityKeeper.GetPair(c, 1, 1)
			return u(p.LastOrderId)
		})},
		{"liq_mm_order", m(func() sdk.Msg {
			return liquiditytypes.NewMsgMMOrder(1, u6, 2, c20Dec("1.10"), c20Dec("1.06"), sdk.NewInt(2000000), c20Dec("0.94"), c20Dec("0.90"), sdk.NewInt(2000000), time.Hour)
		}, func(a *chain.App, c sdk.Context) string {
			p, _ := a.LiquidityKeeper.GetPair(c, 1, 2)
			return u(p.LastOrderId)
		})},
		{"liq_cancel_mm_order", m(func() sdk.Msg { return liquiditytypes.NewMsgCancelMMOrder(1, us[3], 2) }, // the re-imported MM order of user 4 on pair 2
			func(a *chain.App, c sdk.Context) string {
				_, found := a.LiquidityKeeper.GetMMOrderIndex(c, us[3], 1, 2)
				return fmt.Sprintf("%t/%s", found, bal(a, c, us[3], "uasset3"))
			})},
		{"liq_cancel_all_orders", m(func() sdk.Msg { return liquiditytypes.NewMsgCancelAllOrders(1, us[3], []uint64{1}) }, // the re-imported buy order of user 4
			func(a *chain.App, c sdk.Context) string { return bal(a, c, us[3], "uasset2") })},
		{"liq_create_pool", m(func() sdk.Msg {
			return liquiditytypes.NewMsgCreatePool(1, u6, 4, coins("2000000000uasset2,2000000000uasset3"))
		},
			func(a *chain.App, c sdk.Context) string { return u(a.LiquidityKeeper.GetLastPoolID(c, 1)) })},
		{"liq_create_ranged_pool", m(func() sdk.Msg {
			return liquiditytypes.NewMsgCreateRangedPool(1, u6, 2, coins("1000000000uasset3,1000000000uasset4"), c20Dec("0.8"), c20Dec("1.25"), c20Dec("1.0"))
		}, func(a *chain.App, c sdk.Context) string { return u(a.LiquidityKeeper.GetLastPoolID(c, 1)) })},
		// ---- asset, tokenmint, esm, market --------------------------------------------------------------------------------
		{"asset_new_ids", func(a *chain.App, c sdk.Context) string {
			cc, write := c.CacheContext()
			if err := a.AssetKeeper.AddAssetRecords(cc, assettypes.Asset{Name: "NEWASSET", Denom: "unewasset", Decimals: sdk.NewInt(1000000), IsOnChain: true}); err != nil {
				return "err"
			}
			if err := a.AssetKeeper.AddAppRecords(cc, assettypes.AppData{Name: "freshapp", ShortName: "frsh", MinGovDeposit: sdk.NewInt(0)}); err != nil {
				return "err"
			}
			if err := a.AssetKeeper.AddPairsRecords(cc, assettypes.Pair{AssetIn: 4, AssetOut: 3}); err != nil {
				return "err"
			}
			write()
			return fmt.Sprintf("ok:%d/%d/%d/%d", a.AssetKeeper.GetAssetID(c), a.AssetKeeper.GetAppID(c), a.AssetKeeper.GetPairID(c), a.AssetKeeper.GetPairsVaultID(c))
		}},
		{"tokenmint_new", func(a *chain.App, c sdk.Context) string {
			// a further (non-governance) genesis token of app 5 is registered and minted
			cc, write := c.CacheContext()
			if err := a.AssetKeeper.AddAssetRecords(cc, assettypes.Asset{Name: "REWARDTKN", Denom: "urewardtkn", Decimals: sdk.NewInt(1000000), IsOnChain: true}); err != nil {
				return "err"
			}
			rt, _ := a.AssetKeeper.GetAssetForDenom(cc, "urewardtkn")
			if err := a.AssetKeeper.AddAssetInAppRecords(cc, assettypes.AppData{Id: 5, GenesisToken: []assettypes.MintGenesisToken{
				{AssetId: rt.Id, GenesisSupply: sdk.NewInt(5000), IsGovToken: false, Recipient: u6.String()}}}); err != nil {
				return "err"
			}
			write()
			ok, _ := c20Deliver(a, c, tokenminttypes.NewMsgMintNewTokensRequest(u6.String(), 5, rt.Id))
			tm, _ := a.TokenmintKeeper.GetTokenMint(c, 5)
			return fmt.Sprintf("%t/%d", ok, len(tm.MintedTokens))
		}},
		{"esm_deposit", m(func() sdk.Msg { return esmtypes.NewMsgDeposit(us[0].String(), 7, coin("ugovb", 1000)) }, // app 7: shutdown armed, not executed
			func(a *chain.App, c sdk.Context) string {
				d, _ := a.EsmKeeper.GetCurrentDepositStats(c, 7)
				return d.Balance.String()
			})},
		{"market_prices", func(a *chain.App, c sdk.Context) string {
			var sb strings.Builder
			for id := uint64(1); id <= 14; id++ {
				p, err := a.MarketKeeper.GetLatestPrice(c, id)
				if err != nil {
					sb.WriteString("-,")
				} else {
					sb.WriteString(u(p) + ",")
				}
			}
			return sb.String()
		}},
		{"stable_mint_deposit", m(func() sdk.Msg { return vaulttypes.NewMsgDepositStableMintRequest(u6, 2, 2, sdk.NewInt(3000000), 1) },
			func(a *chain.App, c sdk.Context) string {
				v, _ := a.VaultKeeper.GetStableMintVault(c, 1)
				return v.AmountIn.String() + "/" + u(uint64(len(a.VaultKeeper.GetStableMintVaultRewardsOfAllApps(c))))
			})},
		{"stable_mint_withdraw", m(func() sdk.Msg { return vaulttypes.NewMsgWithdrawStableMintRequest(us[1], 4, 5, sdk.NewInt(1000000), 2) }, // the second, re-imported stable vault
			func(a *chain.App, c sdk.Context) string {
				v, _ := a.VaultKeeper.GetStableMintVault(c, 2)
				return v.AmountIn.String() + "/" + v.AmountOut.String()
			})},
		{"stable_mint_create", func(a *chain.App, c sdk.Context) string {
			// a further stable-mint product (pair 2 in app 5 is not under shutdown rules for stable mint creation? observed alike on both chains)
			cc, write := c.CacheContext()
			if err := a.AssetKeeper.AddPairsRecords(cc, assettypes.Pair{AssetIn: 9, AssetOut: 1}); err != nil {
				return "err-pair"
			}
			write()
			w := &c20World{app: a, ctx: c, tr: &Trace{Stats: map[string]int{}}}
			w.extPair(4, a.AssetKeeper.GetPairID(c), "STABLE-NEW", true, "0.01")
			if len(w.fail) > 0 {
				c20Verbose("stable_mint_create: %v", w.fail)
				return "err-extpair"
			}
			ok, d := c20Deliver(a, c, vaulttypes.NewMsgCreateStableMintRequest(u6, 4, a.AssetKeeper.GetPairsVaultID(c), sdk.NewInt(2000000)))
			if !ok {
				c20Verbose("stable_mint_create: %s", d)
			}
			return fmt.Sprintf("%t/%d/%d", ok, a.AssetKeeper.GetPairsVaultID(c), a.VaultKeeper.GetIDForStableVault(c))
		}},
		{"new_locker_id", m(func() sdk.Msg { return lockertypes.NewMsgCreateLockerRequest(u6.String(), sdk.NewInt(1000000), 3, 2) },
			func(a *chain.App, c sdk.Context) string { return u(a.LockerKeeper.GetIDForLocker(c)) })},
		{"locker_withdraw", m(func() sdk.Msg {
			return lockertypes.NewMsgWithdrawAssetRequest(us[0].String(), 1, sdk.NewInt(500000), 3, 2)
		},
			func(a *chain.App, c sdk.Context) string {
				l, _ := a.LockerKeeper.GetLocker(c, 1)
				return l.Depositor + "/" + l.NetBalance.String()
			})},
		{"new_lend_id", m(func() sdk.Msg { return lendtypes.NewMsgLend(u6.String(), 1, coin("uasset1", 70000000), 1, 3) },
			func(a *chain.App, c sdk.Context) string { return u(a.LendKeeper.GetUserLendIDCounter(c)) })},
		{"new_borrow_id", func(a *chain.App, c sdk.Context) string {
			ok, d := c20Deliver(a, c, lendtypes.NewMsgBorrow(u6.String(), a.LendKeeper.GetUserLendIDCounter(c), 1, false, coin("ucasset1", 5000000), coin("uasset2", 1000000)))
			if !ok {
				c20Verbose("new_borrow_id: %s", d)
				return "err"
			}
			remember(a, "borrow", a.LendKeeper.GetUserBorrowIDCounter(c))
			return "ok:" + u(a.LendKeeper.GetUserBorrowIDCounter(c))
		}},
		{"lend_borrow_alternate", func(a *chain.App, c sdk.Context) string {
			ok, d := c20Deliver(a, c, lendtypes.NewMsgBorrowAlternate(us[4].String(), 1, 1, coin("uasset1", 50000000), 1, false, coin("uasset2", 1000000), 3))
			if !ok {
				c20Verbose("lend_borrow_alternate: %s", d)
				return "err"
			}
			remember(a, "altlend", a.LendKeeper.GetUserLendIDCounter(c))
			remember(a, "altborrow", a.LendKeeper.GetUserBorrowIDCounter(c))
			return "ok:" + u(a.LendKeeper.GetUserLendIDCounter(c)) + "/" + u(a.LendKeeper.GetUserBorrowIDCounter(c))
		}},
		{"lend_stable_borrow_asset4", func(a *chain.App, c sdk.Context) string {
			// stable-rate borrowing is enabled for asset 3 only (BorrowAsset checks the flag of the COLLATERAL asset, keeper.go:629): a
			// stable borrow against asset 4 must be refused
			ok0, d0 := c20Deliver(a, c, lendtypes.NewMsgLend(us[4].String(), 4, coin("uasset4", 50000000), 2, 3))
			if !ok0 {
				c20Verbose("lend_stable_borrow_asset4 (lend): %s", d0)
				return "err-lend"
			}
			lendID := a.LendKeeper.GetUserLendIDCounter(c)
			for _, lp := range a.LendKeeper.GetLendPairs(c) {
				if lp.AssetIn == 4 && lp.AssetOut == 1 && lp.AssetOutPoolID == 2 {
					ok, d := c20Deliver(a, c, lendtypes.NewMsgBorrow(us[4].String(), lendID, lp.Id, true, coin("ucasset4", 20000000), coin("uasset1", 3000000)))
					if !ok {
						c20Verbose("lend_stable_borrow_asset4: %s", d)
					}
					return fmt.Sprintf("pair %d interpool %t: %t", lp.Id, lp.IsInterPool, ok)
				}
			}
			return "no-pair"
		}},
		{"lend_calc_interest", m(func() sdk.Msg { return lendtypes.NewMsgCalculateInterestAndRewards(us[4].String()) }, nil)},
		{"lend_close_borrow_lend", func(a *chain.App, c sdk.Context) string {
			ok1, d1 := c20Deliver(a, c, lendtypes.NewMsgCloseBorrow(us[4].String(), mem[a]["altborrow"]))
			ok2, d2 := c20Deliver(a, c, lendtypes.NewMsgCloseLend(us[4].String(), mem[a]["altlend"]))
			if !ok1 || !ok2 {
				c20Verbose("lend_close_borrow_lend: %s | %s", d1, d2)
			}
			return fmt.Sprintf("%t/%t/%s", ok1, ok2, bal(a, c, us[4], "uasset1"))
		}},
		{"lend_repay_withdraw", m(func() sdk.Msg { return lendtypes.NewMsgRepayWithdraw(us[0].String(), 4) }, // closes the re-imported borrow 4 and withdraws its collateral
			func(a *chain.App, c sdk.Context) string {
				_, found := a.LendKeeper.GetBorrow(c, 4)
				l, _ := a.LendKeeper.GetLend(c, 2)
				return fmt.Sprintf("%t/%s", found, l.AmountIn.Amount)
			})},
		{"new_order_id", m(func() sdk.Msg {
			return liquiditytypes.NewMsgLimitOrder(1, u6, 1, liquiditytypes.OrderDirectionSell, coin("uasset1", 2006000), "uasset2", c20Dec("1.07"), sdk.NewInt(2000000), time.Hour)
		}, func(a *chain.App, c sdk.Context) string {
			p, _ := a.LiquidityKeeper.GetPair(c, 1, 1)
			return u(p.LastOrderId)
		})},
		{"new_pair_id", m(func() sdk.Msg { return liquiditytypes.NewMsgCreatePair(1, u6, "uasset2", "uasset4") },
			func(a *chain.App, c sdk.Context) string { return u(a.LiquidityKeeper.GetLastPairID(c, 1)) })},
		{"cancel_order", m(func() sdk.Msg { return liquiditytypes.NewMsgCancelOrder(1, us[2], 1, 2) }, nil)}, // the re-imported sell order of user 3 (order 1 was matched in block 2)
		{"cancel_order_pair2", m(func() sdk.Msg { return liquiditytypes.NewMsgCancelOrder(1, us[2], 2, 1) }, // order id 1 of pair 2 (order id != pair id != app id)
			func(a *chain.App, c sdk.Context) string { return bal(a, c, us[2], "uasset3") })},
		// ---- second-generation auctions and liquidation ------------------------------------------------------------------
		{"v2_limit_bid_id", m(func() sdk.Msg {
			return auctionsV2types.NewMsgDepositLimitBid(u6.String(), 2, 3, sdk.NewInt(4), coin("uasset3", 1500000))
		},
			func(a *chain.App, c sdk.Context) string { return u(a.NewaucKeeper.GetLimitAuctionBidID(c)) })},
		{"v2_limit_bid_withdraw", m(func() sdk.Msg {
			return auctionsV2types.NewMsgWithdrawLimitBid(us[2].String(), 2, 3, sdk.NewInt(2), coin("uasset3", 400000))
		}, nil)},
		{"v2_limit_bid_cancel", m(func() sdk.Msg { return auctionsV2types.NewMsgCancelLimitBid(us[3].String(), 2, 3, sdk.NewInt(3)) }, // limit bid 2 of user 4
			func(a *chain.App, c sdk.Context) string { return bal(a, c, us[3], "uasset3") })},
		{"v2_market_bid_id", m(func() sdk.Msg { return auctionsV2types.NewMsgPlaceMarketBid(u6.String(), 1, coin("uasset3", 100000)) },
			func(a *chain.App, c sdk.Context) string { return u(a.NewaucKeeper.GetUserBidID(c)) })},
		{"v2_reserve_funds", m(func() sdk.Msg {
			return liqV2types.NewMsgAppReserveFundsRequest(u6.String(), 2, 3, coin("uasset3", 700000))
		},
			func(a *chain.App, c sdk.Context) string {
				f, _ := a.NewliqKeeper.GetAppReserveFunds(c, 2, 3)
				return f.TokenQuantity.Amount.String()
			})},
		{"v2_external_liquidation", m(func() sdk.Msg {
			return liqV2types.NewMsgLiquidateExternalKeeperRequest(us[3], 2, us[3].String(), coin("uasset2", 1000000), coin("uasset3", 500000), 2, 3, false)
		}, func(a *chain.App, c sdk.Context) string {
			return u(a.NewliqKeeper.GetLockedVaultID(c)) + "/" + u(a.NewaucKeeper.GetAuctionID(c))
		})},
		// ---- first-generation auctions and liquidation -------------------------------------------------------------------
		{"v1_new_vault", m(func() sdk.Msg {
			return vaulttypes.NewMsgCreateRequest(u6, 4, 3, sdk.NewInt(2000000), sdk.NewInt(1000000))
		},
			func(a *chain.App, c sdk.Context) string {
				remember(a, "v1vault", a.VaultKeeper.GetIDForVault(c))
				return u(a.VaultKeeper.GetIDForVault(c))
			})},
		{"v1_dutch_bid_id", func(a *chain.App, c sdk.Context) string {
			// buy what is left of the re-imported dutch auction 1 (it already has a bid that the export dropped)
			da, err := a.AuctionKeeper.GetDutchAuction(c, 4, 3, 1)
			if err != nil {
				return "err"
			}
			ok, d := c20Deliver(a, c, auctiontypes.NewMsgPlaceDutchBid(u6.String(), 1, da.OutflowTokenCurrentAmount, 4, 3))
			if !ok {
				c20Verbose("v1_dutch_bid_id: %s", d)
				return "err"
			}
			return "ok:" + u(a.AuctionKeeper.GetUserBiddingID(c))
		}},
		{"v1_dutch_bid_partial", func(a *chain.App, c sdk.Context) string {
			// a partial bid on the re-imported dutch auction 2 (auction id 2, locked vault 3)
			ok, d := c20Deliver(a, c, auctiontypes.NewMsgPlaceDutchBid(u6.String(), 2, coin("uasset2", 40000), 4, 3))
			if !ok {
				c20Verbose("v1_dutch_bid_partial: %s", d)
				return "err"
			}
			da, _ := a.AuctionKeeper.GetDutchAuction(c, 4, 3, 2)
			return "ok:" + da.OutflowTokenCurrentAmount.Amount.String() + "/" + u(uint64(len(da.BiddingIds)))
		}},
		{"v1_lend_bid", func(a *chain.App, c sdk.Context) string {
			// buy what is left of the first lend auction (the second, most recent one was completed before the export)
			la, err := a.AuctionKeeper.GetDutchLendAuction(c, 3, 3, 1)
			if err != nil {
				return "err"
			}
			ok, d := c20Deliver(a, c, auctiontypes.NewMsgPlaceDutchLendBid(u6.String(), 1, la.OutflowTokenCurrentAmount, 3, 3))
			if !ok {
				c20Verbose("v1_lend_bid: %s", d)
				return "err"
			}
			return "ok:" + la.OutflowTokenCurrentAmount.Amount.String()
		}},
		{"v1_surplus_bid", func(a *chain.App, c sdk.Context) string {
			sas := a.AuctionKeeper.GetSurplusAuctions(c, 2)
			if len(sas) == 0 {
				return "none"
			}
			bid := sas[0].Bid.Amount.MulRaw(11).QuoRaw(10).AddRaw(1000)
			ok, d := c20Deliver(a, c, auctiontypes.NewMsgPlaceSurplusBid(u6.String(), sas[0].AuctionId, sdk.NewCoin(sas[0].BuyToken.Denom, bid), 2, sas[0].AuctionMappingId))
			if !ok {
				c20Verbose("v1_surplus_bid: %s", d)
			}
			return fmt.Sprintf("%t/%s/%s", ok, bid, bal(a, c, us[2], "uharbor"))
		}},
		{"v1_debt_bid", func(a *chain.App, c sdk.Context) string {
			das := a.AuctionKeeper.GetDebtAuctions(c, 2)
			if len(das) == 0 {
				return "none"
			}
			bid := das[0].ExpectedMintedToken.Amount.MulRaw(8).QuoRaw(10)
			ok, d := c20Deliver(a, c, auctiontypes.NewMsgPlaceDebtBid(u6.String(), das[0].AuctionId, sdk.NewCoin(das[0].ExpectedMintedToken.Denom, bid), das[0].ExpectedUserToken, 2, das[0].AuctionMappingId))
			if !ok {
				c20Verbose("v1_debt_bid: %s", d)
			}
			return fmt.Sprintf("%t/%s/%s", ok, bid, bal(a, c, us[3], "uasset3"))
		}},
		{"v2_liquidate_vault_id", func(a *chain.App, c sdk.Context) string {
			// the safe vault 3 becomes unsafe after a price crash and is liquidated by a user message
			setPrice(a, c, 2, 10000)
			ok, _ := c20Deliver(a, c, liqV2types.NewMsgLiquidateInternalKeeperRequest(u6, 0, 3))
			if !ok {
				return "err"
			}
			return "ok:" + u(a.NewliqKeeper.GetLockedVaultID(c)) + "/" + u(a.NewaucKeeper.GetAuctionID(c)) + "/" + u(uint64(len(a.NewliqKeeper.GetLockedVaults(c))))
		}},
		{"v1_liquidate_vault", func(a *chain.App, c sdk.Context) string {
			// the first-generation vault opened above is unsafe after the crash as well
			ok, d := c20Deliver(a, c, liquidationtypes.NewMsgLiquidateRequest(us[3], 4, mem[a]["v1vault"]))
			if !ok {
				c20Verbose("v1_liquidate_vault: %s", d)
				return "err"
			}
			return "ok:" + u(a.LiquidationKeeper.GetLockedVaultID(c)) + "/" + u(a.AuctionKeeper.GetAuctionID(c))
		}},
		{"v1_liquidate_borrow", func(a *chain.App, c sdk.Context) string {
			// the borrow opened above (collateral: asset 1) after a crash of asset 1
			setPrice(a, c, 1, 10000)
			ok, d := c20Deliver(a, c, liquidationtypes.NewMsgLiquidateBorrowRequest(us[3], mem[a]["borrow"]))
			if !ok {
				c20Verbose("v1_liquidate_borrow: %s", d)
				return "err"
			}
			return "ok:" + u(a.LiquidationKeeper.GetLockedVaultID(c)) + "/" + u(a.AuctionKeeper.GetLendAuctionID(c))
		}},
		// ---- rewards ------------------------------------------------------------------------------------------------------
		{"new_gauge_id", func(a *chain.App, c sdk.Context) string {
			ok, d := c20Deliver(a, c, &rewardstypes.MsgCreateGauge{From: u6.String(), AppId: 1, StartTime: c.BlockTime().Add(time.Hour), GaugeTypeId: 1,
				TriggerDuration: 24 * time.Hour, DepositAmount: coin("ucmdx", 5000000), TotalTriggers: 5,
				Kind: &rewardstypes.MsgCreateGauge_LiquidityMetaData{LiquidityMetaData: &rewardstypes.LiquidtyGaugeMetaData{PoolId: 3}}})
			if !ok {
				c20Verbose("new_gauge_id: %s", d)
				return "err"
			}
			return "ok:" + u(a.Rewardskeeper.GetGaugeID(c))
		}},
		{"ext_rewards_locker_id", m(func() sdk.Msg {
			return rewardstypes.NewMsgActivateExternalRewardsLockers(2, 3, coin("ucmdx", 1000000), 5, 1, u6)
		},
			func(a *chain.App, c sdk.Context) string {
				return u(a.Rewardskeeper.GetExternalRewardsLockersID(c)) + "/" + u(uint64(len(a.Rewardskeeper.GetExternalRewardsLockers(c))))
			})},
		{"ext_rewards_stable_id", m(func() sdk.Msg {
			return rewardstypes.NewMsgActivateExternalRewardsStableVault(2, 1, 3, coin("ucmdx", 1000000), 5, 100, u6)
		},
			func(a *chain.App, c sdk.Context) string {
				return u(uint64(len(a.Rewardskeeper.GetAllExternalRewardStableVault(c))))
			})},
		{"ext_rewards_vault_id", m(func() sdk.Msg {
			return rewardstypes.NewMsgActivateExternalRewardsVault(7, 6, coin("ucmdx", 1000000), 5, 1, u6)
		},
			func(a *chain.App, c sdk.Context) string {
				return u(a.Rewardskeeper.GetExternalRewardsVaultID(c)) + "/" + u(uint64(len(a.Rewardskeeper.GetExternalRewardVaults(c))))
			})},
		{"ext_rewards_lend_id", m(func() sdk.Msg {
			return rewardstypes.NewMsgActivateExternalRewardsLend(3, 1, []uint64{1}, 1, 1, coin("uasset4", 1000000), 1, 5, 1, u6)
		}, func(a *chain.App, c sdk.Context) string {
			return u(a.Rewardskeeper.GetExternalRewardsLendID(c)) + "/" + u(uint64(len(a.Rewardskeeper.GetExternalRewardLends(c))))
		})},
		// ---- governance-like transitions, messages without a position ------------------------------------------------------
		{"asset_add_msg", m(func() sdk.Msg {
			return assettypes.NewMsgAddAsset(u6, "USERASSET", "ibc/USERASSET", 1000000, true, false, false)
		},
			func(a *chain.App, c sdk.Context) string { return u(a.AssetKeeper.GetAssetID(c)) })},
		{"second_gov_token", func(a *chain.App, c sdk.Context) string {
			// governance transition: an app must not get a second governance token
			cc, write := c.CacheContext()
			if err := a.AssetKeeper.AddAssetRecords(cc, assettypes.Asset{Name: "GOVTWO", Denom: "ugov2", Decimals: sdk.NewInt(1000000), IsOnChain: true}); err != nil {
				return "err"
			}
			g2, _ := a.AssetKeeper.GetAssetForDenom(cc, "ugov2")
			if err := a.AssetKeeper.AddAssetInAppRecords(cc, assettypes.AppData{Id: 5, GenesisToken: []assettypes.MintGenesisToken{
				{AssetId: g2.Id, GenesisSupply: sdk.NewInt(1000), IsGovToken: true, Recipient: u6.String()}}}); err != nil {
				return "err"
			}
			write()
			return "ok"
		}},
		{"collector_deposit", m(func() sdk.Msg { return collectortypes.NewMsgDeposit(u6.String(), coin("uasset3", 1000), 2) }, nil)},
		{"locker_whitelist_msg", m(func() sdk.Msg { return lockertypes.NewMsgAddWhiteListedAssetRequest(u6.String(), 2, 4) }, nil)},
		{"esm_redeem", m(func() sdk.Msg { return esmtypes.NewMsgCollateralRedemption(5, coin("uasset3", 100000), us[0]) }, nil)},
		{"esm_kill", m(func() sdk.Msg {
			return esmtypes.NewMsgKillRequest(us[4], esmtypes.KillSwitchParams{AppId: 3, BreakerEnable: true})
		},
			func(a *chain.App, c sdk.Context) string {
				k, _ := a.EsmKeeper.GetKillSwitchData(c, 3)
				return fmt.Sprintf("%t", k.BreakerEnable)
			})},
		{"esm_deposit_execute", seq(func(a *chain.App, c sdk.Context) string {
			// the emergency shutdown of app 7 is triggered at the very end: the blocks that follow wind the app down on both chains
			st, _ := a.EsmKeeper.GetESMStatus(c, 7)
			return fmt.Sprintf("%t", st.Status)
		}, fixed(esmtypes.NewMsgDeposit(us[0].String(), 7, coin("ugovb", 800000))), fixed(esmtypes.NewMsgExecute(us[0].String(), 7)))},
	}
}
