//go:build verif

package harness

// Error-returning late failures (as opposed to injected panics).
//
// stepsLine — the second-generation sweeps call public per-item keeper methods (LiquidateIndividualVault,
// LiquidateIndividualBorrow). The harness runs the same items one by one on a reference branch (commit on success,
// drop on error or panic) and so learns, independently of what the closures in the sweep do with the error, which
// items REPORT FAILURE in this state and whether they had written before failing (a late error). The property then
// demands that the real BeginBlocker leaves exactly the state of the run in which all those units are skipped.
//
// subStepLines — information only: the sub-steps of the hooks that log an error and go on (x/rewards/abci.go), run one
// after the other as the hook does; which of them return an error, and after which writes.

import (
	"strconv"
	"strings"

	sdk "github.com/cosmos/cosmos-sdk/types"

	liqv2types "github.com/comdex-official/comdex/x/liquidationsV2/types"
)

func c15Slice(n, off, batch int) (int, int) {
	s, e := liqv2types.GetSliceStartEndForLiquidations(n, off, batch)
	if s == e {
		s, e = liqv2types.GetSliceStartEndForLiquidations(n, 0, batch)
	}
	return s, e
}

func (w *c15World) stepsLine(scen string, state sdk.Context, blk c15Blocker, reach string, real c15Result) {
	if !real.returned {
		return
	}
	params := w.app.NewliqKeeper.GetParams(state)
	vaults := w.app.VaultKeeper.GetVaults(state)
	hv, _ := w.app.NewliqKeeper.GetLiquidationOffsetHolder(state, liqv2types.VaultLiquidationsOffsetPrefix, 0)
	vs, ve := c15Slice(int(w.app.VaultKeeper.GetLengthOfVault(state)), int(hv.CurrentOffset), int(params.LiquidationBatchSize))
	if vs < 0 || ve > len(vaults) || vs > ve {
		return
	}
	borrows, _ := w.app.LendKeeper.GetBorrows(state)
	hb, _ := w.app.NewliqKeeper.GetLiquidationOffsetHolder(state, liqv2types.VaultLiquidationsOffsetPrefix, 1)
	bs, be := c15Slice(len(borrows), int(hb.CurrentOffset), int(params.LiquidationBatchSize))
	type item struct {
		kind string
		id   uint64
	}
	var items []item
	for _, v := range vaults[vs:ve] {
		items = append(items, item{"vault", v.Id})
	}
	for _, b := range borrows[bs:be] {
		items = append(items, item{"borrow", b})
	}
	// the sweep's units, in order
	var sweepUnits []int
	for i, u := range real.units {
		if u.parent == 0 && strings.Contains(u.site, "liquidationsV2/keeper/liquidate.go") {
			sweepUnits = append(sweepUnits, i+1)
		}
	}
	if len(sweepUnits) != len(items) {
		w.tr.Count("steps:unit-count-mismatch")
		return // unwrapped items are reported by the uloop line
	}
	ref, _ := state.CacheContext()
	skip := map[int]bool{}
	var detail []string
	nFail, nLate := 0, 0
	for i, it := range items {
		cc, write := ref.CacheContext()
		var err error
		panicked, _ := try(func() {
			if it.kind == "vault" {
				err = w.app.NewliqKeeper.LiquidateIndividualVault(cc, it.id, "", false)
			} else {
				err = w.app.NewliqKeeper.LiquidateIndividualBorrow(cc, it.id, "", false)
			}
		})
		if !panicked && err == nil {
			write()
			continue
		}
		nFail++
		skip[sweepUnits[i]] = true
		wrote := len(c15DumpDiff(c15DumpState(w.app, w.stores, cc), c15DumpState(w.app, w.stores, ref))) > 0
		d := it.kind + strconv.FormatUint(it.id, 10) + ":"
		if panicked {
			d += "panic"
		} else {
			d += "err"
		}
		if wrote {
			nLate++
			d += ",late"
			w.tr.Count("late-error:" + it.kind + "-step|" + scen)
			w.tr.Count("late-error-step:" + it.kind)
		}
		detail = append(detail, d)
	}
	stateEq := true
	var diff []string
	if nFail > 0 {
		sk := w.runSkipping(state, blk, skip)
		diff = c15DumpDiff(real.dump, sk.dump)
		stateEq = len(diff) == 0
	}
	w.tr.Line("hooks.steps.single", scen, blk.name, reach, strconv.Itoa(len(items)), strconv.Itoa(nFail), strconv.Itoa(nLate), c15B(stateEq),
		strings.Join(detail, ";"), strings.Join(diff, ","))
	w.tr.Count("steps-lines")
}

func (w *c15World) subStepLines(scen string, state sdk.Context, blk c15Blocker) {
	if blk.name != "rewards.BeginBlocker" {
		return
	}
	k := w.app.Rewardskeeper
	ref, _ := state.CacheContext()
	k.TriggerAndUpdateEpochInfos(ref)
	subs := []struct {
		name string
		f    func(sdk.Context) error
	}{
		{"DistributeExtRewardLocker", k.DistributeExtRewardLocker},
		{"DistributeExtRewardVault", k.DistributeExtRewardVault},
		{"DistributeExtRewardLend", k.DistributeExtRewardLend},
		{"CombinePSMUserPositions", k.CombinePSMUserPositions},
		{"DistributeExtRewardStableVault", k.DistributeExtRewardStableVault},
	}
	for _, s := range subs {
		before := c15DumpState(w.app, w.stores, ref)
		var err error
		panicked, _ := try(func() { err = s.f(ref) })
		wrote := len(c15DumpDiff(c15DumpState(w.app, w.stores, ref), before)) > 0
		out := "ok"
		if panicked {
			out = "panic"
		} else if err != nil {
			out = "err"
		}
		w.tr.Line("hooks.sub.single", scen, blk.name, s.name, out, c15B(wrote))
		if out != "ok" && wrote {
			w.tr.Count("substep-late-error:" + s.name + "|" + scen)
		}
		w.tr.Count("substep:" + s.name + ":" + out)
		if panicked {
			return
		}
	}
}
