//go:build verif

package harness

// C20 — registered store migrations keep the projection.
//
// x/lend (2 -> 3, `Migrate2to3`: LendPairs and AssetRatesParams decoded with the OLD types and re-written with the current ones)
// and x/rewards (2 -> 3: the lend external-reward record stored under key 3 is re-written under its app id) rewrite live records
// in place — a cousin of the genesis round trip. Both accept the CURRENT binary format (the old messages are field-number prefixes
// of the current ones; the new fields of the fixture's records have their default values), so a store in the current format is a
// fixed point of a correct migration. One case = two identical applications built by the deterministic fixture of TestC20; on the
// second the REAL migrator runs at the beginning of the next block (where the upgrade module runs it); then every KV pair of the
// DeFi stores is compared (`migration_keeps:<module>.<prefix>`: same keys — id preserving — and same values — amount preserving),
// the continuation workload runs on both (`migration_continuation:<op>`) and all balances are compared.
// (x/liquidity 1 -> 2 is covered by the order-settlement work package.)

import (
	"sort"
	"testing"
	"time"

	lendkeeper "github.com/comdex-official/comdex/x/lend/keeper"
	rewardskeeper "github.com/comdex-official/comdex/x/rewards/keeper"
	rewardstypes "github.com/comdex-official/comdex/x/rewards/types"
	abci "github.com/cometbft/cometbft/abci/types"
	tmproto "github.com/cometbft/cometbft/proto/tendermint/types"
	sdk "github.com/cosmos/cosmos-sdk/types"
)

type c20MigCase struct {
	name    string
	lend    bool
	rewards bool
	third   bool // a third external lend reward exists (the record the rewards migration moves)
	skip    []string
}

func TestC20Migrations(t *testing.T) {
	tr := OpenTrace(t, "c20mig.trace")
	defer tr.Close(t)
	c20SeparateSetups = true
	defer func() { c20SeparateSetups = false }()
	cases := []c20MigCase{
		{name: "lend-2to3", lend: true},
		{name: "rewards-2to3-with-record-3", rewards: true, third: true},
		{name: "rewards-2to3-without-record-3", rewards: true},
		{name: "lend+rewards", lend: true, rewards: true, third: true},
	}
	rng := NewRng(seed())
	groups := [][]string{{"close "}, {"V1 "}, {"ext rewards"}, {"liq deposit", "liq withdraw", "liq order", "liq mm"}}
	for i := 0; i < scale(1, 8); i++ {
		c := c20MigCase{name: "mix", lend: true, rewards: true, third: rng.Chance(50)}
		for _, g := range groups {
			if rng.Chance(30) {
				c.skip = append(c.skip, g...)
			}
		}
		cases = append(cases, c)
	}
	for _, mc := range cases {
		c20RunMigration(t, tr, mc, rng)
		tr.Count("migcase:" + mc.name)
	}
}

func c20RunMigration(t *testing.T, tr *Trace, mc c20MigCase, rng *Rng) {
	cs := c20Case{name: mc.name, skip: mc.skip}
	if mc.name == "mix" {
		cs.extraBlocks = rng.Intn(3)
	}
	tr.Line("gen.mig.begin", mc.name, u(seed()))
	var apps [2]*c20World
	for i := range apps {
		w := c20BuildWorld(t, tr, cs, i == 0)
		if mc.third {
			w.msg("ext rewards lend 3", rewardstypes.NewMsgActivateExternalRewardsLend(3, 1, []uint64{2}, 1, 1, sdk.NewCoin("uasset4", sdk.NewInt(2000000)), 1, 10, 1, w.u[0]))
		}
		h := w.ctx.BlockHeight()
		w.app.EndBlock(abci.RequestEndBlock{Height: h})
		w.app.Commit()
		apps[i] = w
	}
	a, b := apps[0], apps[1]
	hdr := tmproto.Header{Height: a.ctx.BlockHeight() + 1, Time: a.ctx.BlockTime().Add(6 * time.Second)}
	var ctxs [2]sdk.Context
	for i, w := range apps {
		app := w.app
		p, m := try(func() { app.BeginBlock(abci.RequestBeginBlock{Header: hdr}) })
		if p {
			tr.Line("gen.op", "begin_block", "panic "+m, "-")
		}
		ctxs[i] = app.BaseApp.NewContext(false, hdr)
	}
	// the real migrators, on the second application only
	run := func(name string, f func(sdk.Context) error) {
		var err error
		p, m := try(func() { err = f(ctxs[1]) })
		switch {
		case p:
			tr.Line("gen.migrate", name, "panic", m)
		case err != nil:
			tr.Line("gen.migrate", name, "err", err.Error())
		default:
			tr.Line("gen.migrate", name, "ok", "-")
		}
	}
	if mc.lend {
		run("lend.Migrate2to3", lendkeeper.NewMigrator(b.app.LendKeeper).Migrate2to3)
	}
	if mc.rewards {
		run("rewards.Migrate2to3", rewardskeeper.NewMigrator(b.app.Rewardskeeper).Migrate2to3)
	}
	firstBytes := map[string]map[string]bool{}
	nA := c20DumpAll(tr, "A", a.app, ctxs[0], firstBytes)
	nB := c20DumpAll(tr, "B", b.app, ctxs[1], firstBytes)
	for _, s := range c20Stores {
		var bs []string
		for x := range firstBytes[s[0]] {
			bs = append(bs, x)
		}
		sort.Strings(bs)
		for _, x := range bs {
			tr.Line("gen.check", s[0], x)
		}
		tr.Line("gen.params", s[0])
	}
	tr.Line("gen.end", u(uint64(nA)), u(uint64(nB)))
	c20RunContinuation(tr, a.u, a.app, b.app, ctxs, hdr)
}
