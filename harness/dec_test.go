//go:build verif

package harness

import (
	"math/big"
	"testing"

	sdkmath "cosmossdk.io/math"
)

func decFromRaw(x *big.Int) sdkmath.LegacyDec { return sdkmath.LegacyNewDecFromBigIntWithPrec(x, 18) }

func rawOf(d sdkmath.LegacyDec) string { return d.BigInt().String() }

// TestDec compares every LegacyDec primitive the models use with Base/Dec.lean on the same arguments.
func TestDec(t *testing.T) {
	tr := OpenTrace(t, "dec.trace")
	defer tr.Close(t)
	rng := NewRng(seed())
	P := new(big.Int).Exp(big.NewInt(10), big.NewInt(18), nil)
	half := new(big.Int).Quo(P, big.NewInt(2))
	emit := func(op string, a, b *big.Int) {
		var res string
		panicked, _ := try(func() {
			da, db := decFromRaw(a), decFromRaw(b)
			switch op {
			case "add":
				res = rawOf(da.Add(db))
			case "sub":
				res = rawOf(da.Sub(db))
			case "mul":
				res = rawOf(da.Mul(db))
			case "mulTruncate":
				res = rawOf(da.MulTruncate(db))
			case "mulRoundUp":
				res = rawOf(da.MulRoundUp(db))
			case "mulInt":
				res = rawOf(da.MulInt(sdkmath.NewIntFromBigInt(b)))
			case "quo":
				res = rawOf(da.Quo(db))
			case "quoTruncate":
				res = rawOf(da.QuoTruncate(db))
			case "quoRoundUp":
				res = rawOf(da.QuoRoundUp(db))
			case "quoInt":
				res = rawOf(da.QuoInt(sdkmath.NewIntFromBigInt(b)))
			case "truncateInt":
				res = da.TruncateInt().String()
			case "roundInt":
				res = da.RoundInt().String()
			case "ceil":
				res = rawOf(da.Ceil())
			case "truncateDec":
				res = rawOf(da.TruncateDec())
			case "sqrt":
				r, err := da.ApproxSqrt()
				if err != nil {
					panic(err)
				}
				res = rawOf(r)
			case "power":
				res = rawOf(da.Power(b.Uint64()))
			}
		})
		if panicked {
			res = "panic"
			tr.Count("outcome:panic:" + op)
		}
		tr.Line("dec", op, a.String(), b.String(), res)
	}
	binops := []string{"add", "sub", "mul", "mulTruncate", "mulRoundUp", "quo", "quoTruncate", "quoRoundUp"}
	unops := []string{"truncateInt", "roundInt", "ceil", "truncateDec"}
	// 1. exhaustive small raws around multiples of half a unit (rounding cases)
	lim := int64(scale(12, 40))
	var smalls []*big.Int
	for k := int64(-3); k <= 3; k++ {
		for d := -lim; d <= lim; d++ {
			x := new(big.Int).Mul(half, big.NewInt(k))
			x.Add(x, big.NewInt(d))
			smalls = append(smalls, x)
		}
	}
	for _, a := range smalls {
		for _, op := range unops {
			emit(op, a, big.NewInt(0))
		}
	}
	step := scale(7, 2)
	for i := 0; i < len(smalls); i += step {
		for j := 0; j < len(smalls); j += step {
			for _, op := range binops {
				emit(op, smalls[i], smalls[j])
			}
		}
	}
	// 2. random + boundary-directed
	randBig := func() *big.Int {
		bits := []int{1, 8, 30, 59, 60, 61, 64, 90, 120, 128, 180, 200, 255, 256, 300, 314, 315}[rng.Intn(17)]
		x := new(big.Int)
		for x.BitLen() < bits {
			x.Lsh(x, 64)
			x.Or(x, new(big.Int).SetUint64(rng.U64()))
		}
		x.Rsh(x, uint(x.BitLen()-bits))
		switch rng.Intn(6) {
		case 0: // exact multiple of 10^18
			x.Quo(x, P)
			x.Mul(x, P)
		case 1: // half-way
			x.Quo(x, P)
			x.Mul(x, P)
			x.Add(x, half)
		case 2:
			x.Quo(x, P)
			x.Mul(x, P)
			x.Add(x, half)
			x.Add(x, big.NewInt(int64(rng.Intn(3)-1)))
		}
		if rng.Chance(25) {
			x.Neg(x)
		}
		return x
	}
	n := scale(60000, 1500000)
	for i := 0; i < n; i++ {
		a, b := randBig(), randBig()
		op := binops[rng.Intn(len(binops))]
		emit(op, a, b)
		if i%4 == 0 {
			emit(unops[rng.Intn(len(unops))], a, big.NewInt(0))
		}
		if i%5 == 0 {
			// sdk.Int arguments must themselves fit 256 bits
			bi := new(big.Int).Set(b)
			if bi.BitLen() > 255 {
				bi.Rsh(bi, uint(bi.BitLen()-255))
			}
			emit("mulInt", a, new(big.Int).Rsh(bi, uint(rng.Intn(200))))
			emit("quoInt", a, new(big.Int).Rsh(bi, uint(rng.Intn(250))))
		}
	}
	// 3. sqrt and power on non-negative values in the ranges the pool / interest code uses
	m := scale(4000, 60000)
	for i := 0; i < m; i++ {
		a := randBig()
		a.Abs(a)
		if a.BitLen() > 250 {
			a.Rsh(a, uint(a.BitLen()-250+rng.Intn(100)))
		}
		emit("sqrt", a, big.NewInt(0))
		base := new(big.Int).Add(P, new(big.Int).Rsh(new(big.Int).SetUint64(rng.U64()), uint(4+rng.Intn(50))))
		if rng.Chance(30) {
			base = new(big.Int).Rsh(new(big.Int).SetUint64(rng.U64()), uint(rng.Intn(40)))
		}
		emit("power", base, big.NewInt(int64(rng.Intn(40))))
	}
}
