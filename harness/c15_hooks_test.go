//go:build verif

package harness

// C15 — block hooks never halt, steps are atomic.
//
// Fault-injection correspondence on the REAL Begin/EndBlockers (see notes/C15.md):
//   * the context carries a harness GasMeter that counts store accesses (the flat gas charge gaskv makes
//     before every Get/Set/Has/Delete/iterator step) and panics at a chosen one;
//   * the context's MultiStore is a thin wrapper that observes CacheMultiStore()/Write(): a CacheMultiStore()
//     call is the start of one ApplyFuncIfNoError unit (ctx.CacheContext() has no other caller in the DeFi
//     modules; nested calls are nested units), Write() on that branch is its commit;
//   * faults are injected ONLY at accesses whose innermost branch is the targeted unit, and only after the Go call
//     stack confirms an ApplyFuncIfNoError frame; unwrapped code runs exactly as on chain (infinite gas);
//   * environment faults (inactive prices, drained module accounts, missing parameters, zero batch size,
//     vault counter ≠ list) are prepared in the state, no gas trick; there any escaping panic counts.
//
// Trace lines (driver plug-in lean/Comdex/Drv/Hooks.lean):
//   hooks.begin  scenario blocker nUnits parents(csv, 0 = top level) ownAccesses(csv) commits(bits) returned
//   hooks.fault  unit k returned stateEqualsSkipped laterUnitsRan parentsK commitsK(bits) parents0 commits0(bits) [differing stores]
//   hooks.natural.single scenario blocker unit site writesBeforeFailure stateEqualsSkipped laterUnitsSame [stores]   (a unit that failed without injection)
//   hooks.steps.single  scenario blocker reach nItems nFailing nLate stateEqualsAllFailingSkipped detail   (callable per-item steps)
//   hooks.sub.single    scenario blocker substep outcome wrote    (information: sub-steps of the hooks that log and go on)
//   hooks.env.single    scenario blocker reach returned kind params…     kind ∈ plain | sweep | uloop
//   hooks.shape.single  nine flags: (write visible, err == nil, panic escaped) for a step ending normally / with an error / panicking
// returned ∈ ok | panic

import (
	"crypto/sha256"
	"encoding/hex"
	"fmt"
	"runtime"
	"sort"
	"strconv"
	"strings"

	storetypes "github.com/cosmos/cosmos-sdk/store/types"
	sdk "github.com/cosmos/cosmos-sdk/types"

	chain "github.com/comdex-official/comdex/app"
)

// ---------------------------------------------------------------------------------------------------------------
// recorder, gas meter, multistore wrapper

type c15Fault struct{}

func (c15Fault) Error() string { return "c15 injected store fault" }

type c15UnitRec struct {
	site      string // source position of the ApplyFuncIfNoError call that opened the unit
	parent    int    // 1-based index of the enclosing unit, 0 = top level
	own       int // store accesses whose innermost branch is this unit
	writes    int // … of which writes / deletes
	committed bool
}

type c15Rec struct {
	units      []c15UnitRec
	cur        *c15MS
	rootAcc    int // accesses outside any unit
	faultUnit  int // 1-based; 0 = no fault
	faultK     int
	skip       map[int]bool // units made to fail at their first access (the "unit skipped" reference for several units at once)
	injected   bool
	stackMiss  int // the wrapper said "inside a unit" but no ApplyFuncIfNoError frame was on the stack
	checkStack bool
	// item campaigns (c15_apps_test.go): fault at the g-th store access made inside ANY unit, counted over the whole
	// blocker run — independent of how the blocker cuts its work into units
	useGlobal   bool
	faultGlobal int
	wrappedAcc  int
}

func c15FlatAccess(desc string) bool {
	switch desc {
	case storetypes.GasReadCostFlatDesc, storetypes.GasWriteCostFlatDesc, storetypes.GasHasDesc, storetypes.GasDeleteDesc, storetypes.GasIterNextCostFlatDesc:
		return true
	}
	return false
}

func c15InsideApply() bool {
	pcs := make([]uintptr, 160)
	n := runtime.Callers(3, pcs)
	frames := runtime.CallersFrames(pcs[:n])
	for {
		f, more := frames.Next()
		if strings.HasSuffix(f.Function, "comdex/types.ApplyFuncIfNoError") {
			return true
		}
		if !more {
			return false
		}
	}
}

func (r *c15Rec) onGas(desc string) {
	if !c15FlatAccess(desc) {
		return
	}
	if r.cur == nil || r.cur.unit == 0 {
		r.rootAcc++
		return
	}
	u := &r.units[r.cur.unit-1]
	idx := u.own
	u.own++
	g := r.wrappedAcc
	r.wrappedAcc++
	if r.useGlobal && g == r.faultGlobal && !r.injected {
		if !c15InsideApply() {
			r.stackMiss++
			return
		}
		r.injected = true
		panic(c15Fault{})
	}
	if desc == storetypes.GasWriteCostFlatDesc || desc == storetypes.GasDeleteDesc {
		u.writes++
	}
	if idx == 0 && r.skip[r.cur.unit] && c15InsideApply() {
		panic(c15Fault{})
	}
	if r.checkStack && !c15InsideApply() {
		r.stackMiss++
	}
	if r.faultUnit == r.cur.unit && idx == r.faultK && !r.injected {
		if !c15InsideApply() {
			r.stackMiss++
			return
		}
		r.injected = true
		panic(c15Fault{})
	}
}

type c15Meter struct{ rec *c15Rec }

func (m *c15Meter) GasConsumed() sdk.Gas              { return 0 }
func (m *c15Meter) GasConsumedToLimit() sdk.Gas       { return 0 }
func (m *c15Meter) GasRemaining() sdk.Gas             { return ^uint64(0) }
func (m *c15Meter) Limit() sdk.Gas                    { return ^uint64(0) }
func (m *c15Meter) ConsumeGas(_ sdk.Gas, desc string) { m.rec.onGas(desc) }
func (m *c15Meter) RefundGas(_ sdk.Gas, _ string)     {}
func (m *c15Meter) IsPastLimit() bool                 { return false }
func (m *c15Meter) IsOutOfGas() bool                  { return false }
func (m *c15Meter) String() string                    { return "c15Meter" }

type c15Inner = storetypes.CacheMultiStore

type c15MS struct {
	c15Inner
	rec    *c15Rec
	unit   int // 0 = the root (live) store
	parent *c15MS
}

// c15ApplySite: file:line of the caller of the innermost ApplyFuncIfNoError frame ("" if none).
func c15ApplySite() string {
	pcs := make([]uintptr, 64)
	n := runtime.Callers(3, pcs)
	frames := runtime.CallersFrames(pcs[:n])
	for {
		f, more := frames.Next()
		if strings.HasSuffix(f.Function, "comdex/types.ApplyFuncIfNoError") && more {
			c, _ := frames.Next()
			file := c.File
			if i := strings.Index(file, "/x/"); i >= 0 {
				file = file[i+1:]
			}
			return file + ":" + strconv.Itoa(c.Line)
		}
		if !more {
			return ""
		}
	}
}

func (m *c15MS) CacheMultiStore() storetypes.CacheMultiStore {
	m.rec.units = append(m.rec.units, c15UnitRec{parent: m.unit, site: c15ApplySite()})
	child := &c15MS{c15Inner: m.c15Inner.CacheMultiStore(), rec: m.rec, parent: m, unit: len(m.rec.units)}
	m.rec.cur = child
	return child
}

func (m *c15MS) GetKVStore(k storetypes.StoreKey) storetypes.KVStore {
	m.rec.cur = m
	return m.c15Inner.GetKVStore(k)
}

func (m *c15MS) GetStore(k storetypes.StoreKey) storetypes.Store {
	m.rec.cur = m
	return m.c15Inner.GetStore(k)
}

func (m *c15MS) Write() {
	m.c15Inner.Write()
	if m.unit > 0 {
		m.rec.units[m.unit-1].committed = true
	}
	m.rec.cur = m.parent
}

// ---------------------------------------------------------------------------------------------------------------
// state dump: every KV store of the application (bank included), keys in store order, hashed per store

type c15Dump map[string]string

func c15StoreNames(app *chain.App) []string {
	type named interface {
		StoreKeysByName() map[string]storetypes.StoreKey
	}
	var names []string
	for n, k := range app.CommitMultiStore().(named).StoreKeysByName() {
		if _, ok := k.(*storetypes.KVStoreKey); ok {
			names = append(names, n)
		}
	}
	sort.Strings(names)
	return names
}

func c15DumpState(app *chain.App, names []string, ctx sdk.Context) c15Dump {
	d := c15Dump{}
	for _, n := range names {
		st := ctx.MultiStore().GetKVStore(app.GetKey(n))
		h := sha256.New()
		it := st.Iterator(nil, nil)
		cnt := 0
		for ; it.Valid(); it.Next() {
			k, v := it.Key(), it.Value()
			fmt.Fprintf(h, "%d:%x=%d:%x;", len(k), k, len(v), v)
			cnt++
		}
		it.Close()
		d[n] = strconv.Itoa(cnt) + ":" + hex.EncodeToString(h.Sum(nil))[:20]
	}
	return d
}

func c15DumpDiff(a, b c15Dump) []string {
	var out []string
	for n, v := range a {
		if b[n] != v {
			out = append(out, n)
		}
	}
	for n := range b {
		if _, ok := a[n]; !ok {
			out = append(out, n)
		}
	}
	sort.Strings(out)
	return out
}

// ---------------------------------------------------------------------------------------------------------------
// running one real blocker

type c15Blocker struct {
	name string
	run  func(app *chain.App, ctx sdk.Context)
}

type c15Result struct {
	returned bool
	msg      string
	units    []c15UnitRec
	rootAcc  int
	injected bool
	miss     int
	dump     c15Dump
	ctx      sdk.Context // the branch the blocker ran on (state afterwards)
}

// runSkipping runs blk with every unit of the set failing at its first store access.
func (w *c15World) runSkipping(state sdk.Context, blk c15Blocker, skip map[int]bool) c15Result {
	return w.runRec(state, blk, &c15Rec{skip: skip})
}

// run runs blk on a branch of state; faultUnit = 0 ⇒ no injection.
func (w *c15World) run(state sdk.Context, blk c15Blocker, faultUnit, faultK int, checkStack bool) c15Result {
	return w.runRec(state, blk, &c15Rec{faultUnit: faultUnit, faultK: faultK, checkStack: checkStack})
}

func (w *c15World) runRec(state sdk.Context, blk c15Blocker, rec *c15Rec) c15Result {
	branch, _ := state.CacheContext()
	root := &c15MS{c15Inner: branch.MultiStore().(storetypes.CacheMultiStore), rec: rec}
	rec.cur = root
	ctx := branch.WithMultiStore(root).WithGasMeter(&c15Meter{rec}).WithEventManager(sdk.NewEventManager())
	panicked, msg := try(func() { blk.run(w.app, ctx) })
	return c15Result{returned: !panicked, msg: msg, units: rec.units, rootAcc: rec.rootAcc, injected: rec.injected, miss: rec.stackMiss,
		dump: c15DumpState(w.app, w.stores, branch), ctx: branch}
}

func c15Bits(us []c15UnitRec) string {
	var sb strings.Builder
	for _, u := range us {
		if u.committed {
			sb.WriteByte('1')
		} else {
			sb.WriteByte('0')
		}
	}
	if sb.Len() == 0 {
		return "-"
	}
	return sb.String()
}

func c15CSV(us []c15UnitRec, f func(c15UnitRec) int) string {
	if len(us) == 0 {
		return "-"
	}
	ss := make([]string, len(us))
	for i, u := range us {
		ss[i] = strconv.Itoa(f(u))
	}
	return strings.Join(ss, ",")
}

func c15Ret(b bool) string {
	if b {
		return "ok"
	}
	return "panic"
}

func c15B(b bool) string {
	if b {
		return "1"
	}
	return "0"
}

// isDesc: is unit v (1-based) u itself or nested inside u?
func c15IsDesc(us []c15UnitRec, v, u int) bool {
	for v != 0 {
		if v == u {
			return true
		}
		v = us[v-1].parent
	}
	return false
}

// c15Outside: the units of a run that are not inside unit u (parents + commit flags), in start order.
func c15Outside(us []c15UnitRec, u int) string {
	var sb strings.Builder
	for i := range us {
		if c15IsDesc(us, i+1, u) {
			continue
		}
		fmt.Fprintf(&sb, "%d%s;", us[i].parent, c15B(us[i].committed))
	}
	return sb.String()
}

// c15LaterCount: units started after u that are not inside u.
func c15LaterCount(us []c15UnitRec, u int) int {
	n := 0
	for i := u; i < len(us); i++ {
		if !c15IsDesc(us, i+1, u) {
			n++
		}
	}
	return n
}

// naturalLine: unit `unit` of the fault-free run `base` reported failure by itself (returned error or panic, no
// injection): it must be invisible — `base` equals `ref`, the run in which the unit is skipped.
func (w *c15World) naturalLine(scen string, blk c15Blocker, base, ref c15Result, unit int) {
	u := base.units[unit-1]
	diff := c15DumpDiff(base.dump, ref.dump)
	later := c15Outside(base.units, unit) == c15Outside(ref.units, unit)
	w.tr.Line("hooks.natural.single", scen, blk.name, strconv.Itoa(unit), u.site, strconv.Itoa(u.writes), c15B(len(diff) == 0), c15B(later), strings.Join(diff, ","))
	if u.writes > 0 {
		w.tr.Count("late-error:" + u.site + "|" + scen)
		w.tr.Count("late-error-site:" + u.site)
	} else {
		w.tr.Count("early-error-site:" + u.site)
	}
}

// campaign: baseline run of every blocker on the state, then a fault at own access k of every unit.
func (w *c15World) campaign(scen string, state sdk.Context, blockers []c15Blocker, ksPerUnit int) {
	for _, blk := range blockers {
		base := w.run(state, blk, 0, 0, true)
		w.tr.Line("hooks.begin", scen, blk.name, strconv.Itoa(len(base.units)), c15CSV(base.units, func(u c15UnitRec) int { return u.parent }),
			c15CSV(base.units, func(u c15UnitRec) int { return u.own }), c15Bits(base.units), c15Ret(base.returned))
		w.tr.Count("blocker:" + blk.name)
		if base.miss > 0 {
			w.tr.Stats["stack-miss"] += base.miss
		}
		if !base.returned {
			// a panic escaping with no injected fault: report it with the inputs the model predicts it from
			w.tr.Count("baseline-panic:" + blk.name)
			w.envLine(scen, state, blk, "1", base)
			continue
		}
		if blk.name == "liquidationsV2.BeginBlocker" {
			w.stepsLine(scen, state, blk, "1", base)
		}
		if blk.name == "rewards.BeginBlocker" || blk.name == "lend.BeginBlocker@14400" {
			w.subStepLines(scen, state, blk)
		}
		for ui, u := range base.units {
			unit := ui + 1
			w.tr.Count("site:" + u.site)
			if u.own == 0 {
				w.tr.Count("unit:no-access")
				continue
			}
			w.tr.Count("units")
			w.tr.Count("site-with-faults:" + u.site)
			if u.committed {
				w.tr.Count("unit:committed-in-baseline")
			} else {
				w.tr.Count("unit:failed-in-baseline")
			}
			if u.parent != 0 {
				w.tr.Count("unit:nested")
			}
			ref := w.run(state, blk, unit, 0, false)
			if !ref.injected {
				w.t.Errorf("c15: %s %s unit %d: reference fault not injected", scen, blk.name, unit)
				continue
			}
			if len(c15DumpDiff(ref.dump, base.dump)) > 0 {
				w.tr.Count("unit:has-visible-effect")
			}
			if !u.committed {
				w.naturalLine(scen, blk, base, ref, unit)
			}
			ks := []int{0}
			if u.own > 1 {
				n := u.own - 1
				if ksPerUnit <= 0 || n <= ksPerUnit {
					for k := 1; k <= n; k++ {
						ks = append(ks, k)
					}
				} else {
					// strided, always including the last access, offset varied by the seed
					off := int(w.rng.U64() % uint64(n))
					for j := 0; j < ksPerUnit-1; j++ {
						ks = append(ks, 1+(off+j*n/(ksPerUnit-1))%n)
					}
					ks = append(ks, n)
				}
			}
			for _, k := range ks {
				r := ref
				if k != 0 {
					r = w.run(state, blk, unit, k, false)
				}
				if !r.injected {
					w.t.Errorf("c15: %s %s unit %d k %d: fault not injected", scen, blk.name, unit, k)
					continue
				}
				diff := c15DumpDiff(r.dump, ref.dump)
				stateEq := len(diff) == 0
				later := c15Outside(r.units, unit) == c15Outside(ref.units, unit) &&
					c15LaterCount(r.units, unit) == c15LaterCount(base.units, unit)
				par := func(u c15UnitRec) int { return u.parent }
				w.tr.Line("hooks.fault", strconv.Itoa(unit), strconv.Itoa(k), c15Ret(r.returned), c15B(stateEq), c15B(later),
					c15CSV(r.units, par), c15Bits(r.units), c15CSV(ref.units, par), c15Bits(ref.units), strings.Join(diff, ","))
				w.tr.Count("faults")
				if r.miss > 0 {
					w.tr.Stats["stack-miss"] += r.miss
				}
				if !r.returned {
					w.tr.Count("fault:escaped-panic")
				}
			}
		}
	}
}
